#!/usr/bin/env python3
"""Rewrites the as-built table of DESIGN.md (between the ASBUILT markers) from
/verif/evidence/*.json (quick tier, last run) and /verif/evidence_thorough/*.json
(copies kept by tools/run_thorough_all.sh)."""
import json, os

BEGIN, END = '<!-- ASBUILT-BEGIN -->', '<!-- ASBUILT-END -->'


def load(path):
    try:
        return json.load(open(path))
    except Exception:
        return None


def num(n):
    if n is None:
        return '-'
    if n >= 1e9:
        return '%.2fe9' % (n / 1e9)
    if n >= 1e6:
        return '%.1fe6' % (n / 1e6)
    if n >= 1e4:
        return '%.0fe3' % (n / 1e3)
    return str(n)


rows = []
for i in range(1, 18):
    pid = 'C%02d' % i
    for tier, d in (('quick', '/verif/evidence'), ('thorough', '/verif/evidence_thorough')):
        e = load(os.path.join(d, pid + '.json'))
        if not e or e.get('tier') != tier:
            continue
        c = e['coverage']
        bounds = ' // '.join(c.get('bounds') or [])
        kf = c.get('known_findings_matched', 0)
        rows.append('| %s | %s | %s | %s | %s | %.0f s | %s | %s |' % (
            pid, tier, num(c.get('states')), num(c.get('transitions')),
            'yes' if c.get('exhaustive') else 'no (capped)', e['wall_s'],
            kf, (bounds if len(bounds) <= 700 else bounds[:700] + ' ... (complete text in the evidence file)').replace('|', '/')))

table = [BEGIN,
         '| id | tier | states (distinct cases) | transitions (checked executions) | space completed | wall | known findings matched | what was enumerated (as reported by the run) |',
         '|---|---|---|---|---|---|---|---|'] + rows + [END]
s = open('/verif/DESIGN.md').read()
a, b = s.index(BEGIN), s.index(END) + len(END)
open('/verif/DESIGN.md', 'w').write(s[:a] + '\n'.join(table) + s[b:])
print('as-built table: %d rows' % len(rows))

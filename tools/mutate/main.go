// Command mutate lists or applies single-point mutations of a Go source file
// (a small mutation-testing helper for tools/mutation.py; not part of any
// registered check).
//
//	mutate -file f.go -count             number of mutants
//	mutate -file f.go -apply i -out g.go write mutant i, print its description
package main

import (
	"bytes"
	"flag"
	"fmt"
	"go/ast"
	"go/format"
	"go/parser"
	"go/token"
	"os"
	"strconv"
)

type mutant struct {
	desc  string
	apply func()
	undo  func()
}

func main() {
	file := flag.String("file", "", "source file")
	count := flag.Bool("count", false, "print the number of mutants")
	applyI := flag.Int("apply", -1, "mutant to apply")
	out := flag.String("out", "", "output file")
	flag.Parse()
	fset := token.NewFileSet()
	f, err := parser.ParseFile(fset, *file, nil, parser.ParseComments)
	if err != nil {
		fmt.Fprintln(os.Stderr, err)
		os.Exit(2)
	}
	var ms []mutant
	pos := func(n ast.Node) string { p := fset.Position(n.Pos()); return fmt.Sprintf("%s:%d", p.Filename[len(p.Filename)-minInt(len(p.Filename), 20):], p.Line) }
	swap := map[token.Token][]token.Token{
		token.ADD: {token.SUB}, token.SUB: {token.ADD}, token.MUL: {token.ADD}, token.QUO: {token.MUL}, token.REM: {token.QUO},
		token.LSS: {token.LEQ, token.GEQ}, token.LEQ: {token.LSS}, token.GTR: {token.GEQ, token.LEQ}, token.GEQ: {token.GTR},
		token.EQL: {token.NEQ}, token.NEQ: {token.EQL}, token.LAND: {token.LOR}, token.LOR: {token.LAND},
		token.ADD_ASSIGN: {token.SUB_ASSIGN}, token.SUB_ASSIGN: {token.ADD_ASSIGN},
	}
	ast.Inspect(f, func(n ast.Node) bool {
		switch x := n.(type) {
		case *ast.BinaryExpr:
			orig := x.Op
			for _, alt := range swap[x.Op] {
				alt := alt
				ms = append(ms, mutant{fmt.Sprintf("%s: %s -> %s", pos(x), orig, alt), func() { x.Op = alt }, func() { x.Op = orig }})
			}
			if x.Op == token.REM {
				// a % b -> a (the reduction dropped)
				y := x.Y
				ms = append(ms, mutant{fmt.Sprintf("%s: drop '%% ...'", pos(x)), func() { x.Op = token.ADD; x.Y = &ast.BasicLit{Kind: token.INT, Value: "0"} }, func() { x.Op = orig; x.Y = y }})
			}
		case *ast.AssignStmt:
			orig := x.Tok
			for _, alt := range swap[x.Tok] {
				alt := alt
				ms = append(ms, mutant{fmt.Sprintf("%s: %s -> %s", pos(x), orig, alt), func() { x.Tok = alt }, func() { x.Tok = orig }})
			}
		case *ast.BasicLit:
			if x.Kind == token.INT {
				if v, err := strconv.Atoi(x.Value); err == nil && v >= 0 && v <= 16 {
					orig := x.Value
					ms = append(ms, mutant{fmt.Sprintf("%s: literal %s -> %d", pos(x), orig, v+1), func() { x.Value = strconv.Itoa(v + 1) }, func() { x.Value = orig }})
				}
			}
		case *ast.IfStmt:
			orig := x.Cond
			ms = append(ms, mutant{fmt.Sprintf("%s: negate the condition", pos(x)), func() { x.Cond = &ast.UnaryExpr{Op: token.NOT, X: &ast.ParenExpr{X: orig}} }, func() { x.Cond = orig }})
		case *ast.BlockStmt:
			for i, st := range x.List {
				i, st := i, st
				if es, ok := st.(*ast.ExprStmt); ok {
					if _, ok := es.X.(*ast.CallExpr); ok {
						ms = append(ms, mutant{fmt.Sprintf("%s: delete the call statement", pos(st)), func() { x.List[i] = &ast.EmptyStmt{Semicolon: st.Pos()} }, func() { x.List[i] = st }})
					}
				}
				if as, ok := st.(*ast.AssignStmt); ok && as.Tok == token.ASSIGN {
					ms = append(ms, mutant{fmt.Sprintf("%s: delete the assignment", pos(st)), func() { x.List[i] = &ast.EmptyStmt{Semicolon: st.Pos()} }, func() { x.List[i] = st }})
				}
				if _, ok := st.(*ast.IncDecStmt); ok {
					ms = append(ms, mutant{fmt.Sprintf("%s: delete the increment", pos(st)), func() { x.List[i] = &ast.EmptyStmt{Semicolon: st.Pos()} }, func() { x.List[i] = st }})
				}
			}
		case *ast.Ident:
			if x.Name == "true" || x.Name == "false" {
				orig := x.Name
				alt := "true"
				if orig == "true" {
					alt = "false"
				}
				ms = append(ms, mutant{fmt.Sprintf("%s: %s -> %s", pos(x), orig, alt), func() { x.Name = alt }, func() { x.Name = orig }})
			}
		}
		return true
	})
	if *count {
		fmt.Println(len(ms))
		return
	}
	if *applyI < 0 || *applyI >= len(ms) {
		fmt.Fprintln(os.Stderr, "no such mutant")
		os.Exit(2)
	}
	m := ms[*applyI]
	m.apply()
	var buf bytes.Buffer
	if err := format.Node(&buf, fset, f); err != nil {
		fmt.Fprintln(os.Stderr, err)
		os.Exit(2)
	}
	if err := os.WriteFile(*out, buf.Bytes(), 0o644); err != nil {
		fmt.Fprintln(os.Stderr, err)
		os.Exit(2)
	}
	fmt.Println(m.desc)
}

func minInt(a, b int) int {
	if a < b {
		return a
	}
	return b
}

module mutate

go 1.22

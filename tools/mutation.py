#!/usr/bin/env python3
"""Mutation analysis of bobertlo/gmars against the quick-tier enumerations.

Not a registered check: a measurement of how many single-point changes of the
code the checks report. Works on its own copies (a worktree of /repo and a copy
of /verif/mc under /tmp/mut), so /repo itself is never touched.

  mutation.py <file.go> [first [last [stride]]]     mutants first..last of one file, every stride-th

For each mutant (tools/mutate: operator swaps, dropped '% m', literals +1,
negated conditions, deleted call / assignment statements, true<->false):
  1. it must compile and the repository's own suite must still pass (otherwise
     it is recorded as 'suite' or 'compile' and not examined further);
  2. the plain-build worker is built against it and the quick spaces mapped to
     the file are run in 16 shards with VH_STOP_ON_VIOLATION (a worker exits
     at its first violation); the first space that reports it is recorded;
  3. a mutant no space reports is recorded as 'survived' with its diff.
Results are appended to /verif/mutation/<file>.jsonl.
"""
import json, os, subprocess, sys, time, shutil

ENV = dict(os.environ, GOFLAGS="-mod=mod", GOPROXY="off", GOSUMDB="off", GOTOOLCHAIN="local")
ENV_REPO = dict(os.environ, GOFLAGS="", GOPROXY="off", GOSUMDB="off", GOTOOLCHAIN="local")
ROOT = "/tmp/mut"
WT = ROOT + "/repo"
MC = ROOT + "/mc"

SIM = [("e2", "C02"), ("e2", "C12"), ("e3", "C13"), ("e5", "C16"), ("e1", "C01:-cap:45"), ("e1", "C15:-cap:45"), ("e2", "C15:-cap:45"), ("e2", "C04:-cap:45")]
ASM = [("e4", "C03"), ("e4", "C08"), ("e4", "C07"), ("e4", "C06"), ("e5", "C09"), ("e6", "C05:-job:free")]
LOAD = [("e5", "C09"), ("e5", "C10"), ("e5", "C16"), ("e4", "C06"), ("e4", "C03")]
PLAN = {
    "sim.go": SIM, "simops.go": SIM, "queue.go": SIM, "staterecorder.go": [("e1", "C15"), ("e2", "C15")],
    "warrior.go": [("e5", "C16"), ("e3", "C13"), ("e7", "C14:-job:iso")], "config.go": [("e2", "C04"), ("e4", "C07"), ("e1", "C01:-cap:45")],
    "load.go": LOAD, "asm.go": LOAD + ASM[:2],
    "expr.go": ASM, "forexpand.go": ASM, "compile.go": ASM, "parser.go": ASM, "lex.go": ASM, "symbol_scanner.go": ASM, "graph.go": ASM,
}


def sh(cmd, cwd=None, env=ENV, timeout=900):
    try:
        p = subprocess.run(cmd, shell=True, cwd=cwd, env=env, capture_output=True, text=True, timeout=timeout)
        return p.returncode, p.stdout + p.stderr
    except subprocess.TimeoutExpired:
        return 124, "timeout"


def setup():
    if not os.path.exists(WT):
        os.makedirs(ROOT, exist_ok=True)
        rc, out = sh("git -C /repo worktree add -q --detach %s HEAD" % WT, env=ENV_REPO)
        if rc != 0:
            sys.exit(out)
    sh("git checkout -- .", cwd=WT, env=ENV_REPO)
    if os.path.exists(MC):
        shutil.rmtree(MC)
    shutil.copytree("/verif/mc", MC)
    s = open(MC + "/go.mod").read().replace("=> /repo", "=> " + WT)
    open(MC + "/go.mod", "w").write(s)
    rc, out = sh("go build -o /tmp/mut/mutate .", cwd="/verif/tools/mutate")
    if rc != 0:
        sys.exit(out)


def run_space(eng, props):
    parts = props.split(":")
    extra = " ".join(parts[1:])
    procs = []
    for i in range(16):
        cmd = "%s/vh %s -props %s -tier quick -shard %d/16 %s" % (ROOT, eng, parts[0], i, extra)
        procs.append(subprocess.Popen(cmd, shell=True, env=dict(ENV, GOMAXPROCS="1", GOGC="400", VH_STOP_ON_VIOLATION="1", VH_WATCHDOG_S="15"),
                                      stdout=subprocess.DEVNULL, stderr=subprocess.PIPE, text=True))
    killed, why = False, ""
    t0 = time.time()
    pending = list(procs)
    while pending:
        for p in list(pending):
            rc = p.poll()
            if rc is None:
                continue
            pending.remove(p)
            err = p.stderr.read()
            if rc != 0:
                killed = True
                why = why or ("exit %d: %s" % (rc, err.strip()[-300:]))
        if killed:
            for p in pending:
                p.kill()
            break
        if time.time() - t0 > 900:
            for p in pending:
                p.kill()
            why = "timeout"
            break
        time.sleep(0.05)
    return killed, why


def main():
    fname = sys.argv[1]
    setup()
    rc, out = sh("%s/mutate -file %s/%s -count" % (ROOT, WT, fname))
    n = int(out.strip())
    first = int(sys.argv[2]) if len(sys.argv) > 2 else 0
    last = int(sys.argv[3]) if len(sys.argv) > 3 else n - 1
    stride = int(sys.argv[4]) if len(sys.argv) > 4 else 1
    os.makedirs("/verif/mutation", exist_ok=True)
    log = open("/verif/mutation/%s.jsonl" % fname, "a")
    for i in range(first, min(last, n - 1) + 1, stride):
        sh("git checkout -- .", cwd=WT, env=ENV_REPO)
        shutil.copy(WT + "/" + fname, ROOT + "/orig.go")
        rc, desc = sh("%s/mutate -file %s/orig.go -apply %d -out %s/%s" % (ROOT, ROOT, i, WT, fname))
        desc = desc.replace(ROOT + "/orig.go", fname).replace("mut/orig.go", fname)
        rec = {"file": fname, "mutant": i, "what": desc.strip()}
        t0 = time.time()
        rc, out = sh("go build .", cwd=WT, env=ENV_REPO, timeout=300)
        if rc != 0:
            rec["result"] = "compile"
        else:
            rc, out = sh("timeout 120 go test -vet=off -count=1 .", cwd=WT, env=ENV_REPO, timeout=200)
            if rc != 0:
                rec["result"] = "suite"
            else:
                rc, out = sh("go build -o %s/vh ./cmd/vh" % ROOT, cwd=MC, timeout=600)
                if rc != 0:
                    rec["result"] = "harness-build: " + out[-300:]
                else:
                    rec["result"] = "survived"
                    for eng, props in PLAN[fname]:
                        killed, why = run_space(eng, props)
                        if killed:
                            rec["result"] = "reported"
                            rec["by"] = props.split(":")[0] + " (" + eng + ")"
                            rec["why"] = why[:400]
                            break
                    if rec["result"] == "survived":
                        rc, d = sh("git diff", cwd=WT, env=ENV_REPO)
                        rec["diff"] = d[-1500:]
        rec["secs"] = round(time.time() - t0, 1)
        log.write(json.dumps(rec) + "\n")
        log.flush()
        print(i, rec["result"], rec.get("by", ""), rec["what"], rec["secs"], flush=True)
    sh("git checkout -- .", cwd=WT, env=ENV_REPO)


main()

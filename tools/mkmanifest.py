#!/usr/bin/env python3
"""Regenerates /verif/MANIFEST.json from the table below (kept in one place so
that the manifest is valid at all times)."""
import json

CLAIMED = {
 "C01": dict(engine="e1-stepspace", design="4/C01",
   text="Exhaustive enumeration of complete initial states of one simulator step (total space for M=3; all forms x all fields x all limit pairs over dense cores for M=8 at the last two cells, thorough: M in 4..16 and sparse cores with <=2 non-empty neighbours; large non-power-of-two cores up to 10^6 cells with field products beyond 2^32), each executed through the public API and compared cell-for-cell and queue-for-queue with an independent ICWS'94 reference step; every state is followed by a second step on the same simulator so that state kept between steps is observed.",
   technique="explicit-state enumeration of step states + lock-step reference model comparison"),
 "C11": dict(engine="e1-stepspace", design="4/C11",
   text="Same exhaustive step spaces as C01 with every (R,W) pair (and large cores with limits below the core size): changed cells within floor(W/2), non-sequential successors within floor(R/2), R=W=M equals the limit-free reference step, and a differential non-interference run in which every cell beyond both distances is replaced.",
   technique="explicit-state enumeration of step states + distance invariants + differential non-interference"),
 "C02": dict(engine="e2-battles", design="4/C02",
   text="Exhaustive enumeration of battles (1..4 warriors over a 16-instruction scheduling alphabet, every offset, entry point, process limits 1..3 and 5..17, cycle limits; thorough: other core sizes and read/write limits) driven cycle by cycle in lock step with an independent reference scheduler (executed tasks, queues, alive flags, counters, whole core after every cycle), Run() on a fresh simulator compared with the stepped final state, plus long runs (70000 cycles, 70000 processes).",
   technique="explicit-state enumeration of battles + lock-step reference scheduler trace comparison"),
 "C12": dict(engine="e2-battles", design="4/C12",
   text="Every enumerated battle (1..3 warriors, M in {5,8}, limits (M,M) and (3,4)) is re-run at every shift in [0,M) and with offsets spelled off+jM (j in 0..2); results, cycle count, rotated core and rotated queues must equal the unshifted run (differential oracle, no reference model); warriors exactly as long as the core and one cell shorter are included.",
   technique="exhaustive enumeration of battles x all placements, differential (metamorphic) comparison"),
 "C04": dict(engine="e1-stepspace + e2-battles + config product", design="4/C04",
   text="Invariants (fields and PCs < M, queue <= P, cycles <= limit, living == #alive, alive <=> queue non-empty, no panic) on every successor of the step spaces, after every cycle of every battle of all 7616 one-instruction warriors against 12 hostile programs, and on a boundary product of all seven configuration fields (refused with an error, or supports a hostile battle).",
   technique="explicit-state enumeration with invariant checking in every reached state"),
 "C15": dict(engine="e1-stepspace + e2-battles", design="4/C15",
   text="A recording listener and the bundled StateRecorder are attached to every step of the step spaces and every cycle of the enumerated battles (including Reset in mid-battle, load offsets at and above the core size, and one simulator through 70000 battles separated by Reset): addresses < M, valid warrior index, task pop announces the queue front before the task runs, changed cells (from core snapshots taken at every pop) are a subset of reported mutations which are a subset of the cells the reference step may touch, terminate reports iff deaths, recorder state equals the last-operation fold of the reference event stream.",
   technique="explicit-state enumeration with per-task report-stream oracle against the reference event stream"),
 "C07": dict(engine="e4-asm", design="4/C07",
   text="Grammar-directed exhaustive enumeration of expression trees (all shapes/operators/literals up to 2 operators with every sign run on every operand, bounded sign deviations up to 4 operators, redundant parentheses, spacing, EQU-carried signs) in five contexts (operand, FOR count, ORG, END, ;assert) and four core sizes; every assembled field / accept-reject decision is compared with an exact big-integer evaluation of the tree; predefined constants under six configurations.",
   technique="bounded exhaustive grammar enumeration + independent big-integer reference evaluator"),
 "C03": dict(engine="e4-asm", design="4/C03",
   text="Exhaustive enumeration of abstract programs (the full opcode x modifier x mode x lone-operand grid as one-instruction programs; three-instruction skeletons in which each slot takes every template x every pair from a 22-expression symbolic operand alphabet over labels, EQUs, predefined constants and literals; ORG/END/none) in both dialects and several core sizes, plus every set of <=2 surface-rendering deviations of representative programs; CompileWarrior(render(p)) is compared with meaning(p) computed without gmars.",
   technique="bounded exhaustive enumeration of programs x deviation-bounded renderings + independent denotational reference"),
 "C08": dict(engine="e4-asm", design="4/C08",
   text="Every FOR/ROF structure tree up to an item bound (depth <=3, counts 0..6 / 0..3, <=40 block expansions, counters inside operand arithmetic, block labels used inside and after the block, counts spelled via EQU or enclosing counter), and sequences of 1..14 blocks, each also in one of five surface variants (incl. labels spelled like the counters in the other case): CompileWarrior(p), CompileWarrior(unroll(p)) and meaning(unroll(p)) must agree.",
   technique="bounded exhaustive enumeration of FOR structure trees + differential against manual unrolling and denotational reference"),
 "C06": dict(engine="e4-asm", design="4/C06",
   text="The structural predicate (fields < M, entry point inside the code, length <= maximum, defined enum values; under ICWS'88 an independent legality table with the implied modifier) is evaluated on every input that assembles among the C03 and C08 spaces and targeted grids around every range check (ORG/END k around the length in 5 spellings, lengths around the maximum written out and through FOR, all opcode x modifier x 9 x 10 mode combinations under ICWS'88, extreme literals).",
   technique="bounded exhaustive input enumeration + invariant (predicate) on every accepted output"),
 "C09": dict(engine="e5-loadfiles", design="4/C09",
   text="Every instruction form legal in each dialect as a one-instruction warrior (field values {0,1,M-1,M/2,M/2+1}, three spellings, four core sizes), all 2..3-instruction warriors over a 12-form alphabet with every entry point, every ordered pair of legal '88 forms and the '94 pairs sharing an opcode or differing in opcode only as two-line warriors, and every set of <=2 layout perturbations of representative files (incl. comments that contain ';' and syntax-like words) are printed canonically and read back by both ParseLoadFile and CompileWarrior; both must return exactly the warrior.",
   technique="bounded exhaustive enumeration of warriors x deviation-bounded layout perturbations, round-trip oracle"),
 "C10": dict(engine="e5-loadfiles", design="4/C10",
   text="Every single and double corruption (field deletion/duplication/transposition, 14 replacement numbers, bad mnemonics and modes, 14 directive insertions at every boundary, truncation at every byte, missing final newline) of 10 canonical files per dialect, and every ICWS'88 file of two instruction lines over every ordered pair of opcode x A-mode x B-mode line forms, legal or not (plus three-line files around a repeated opcode): the loader returns without panic with an error, or a well-formed warrior whose length equals the number of instruction-candidate lines before the end marker as classified by an independent line classifier.",
   technique="exhaustive fault (corruption) enumeration up to 2 deviations with an independent line-classifier oracle"),
 "C16": dict(engine="e5-loadfiles + e8-cli (-A)", design="4/C16",
   text="For each dialect every legal instruction form x every field pair for M in 3..9 and boundary fields for M in {80,8000,8192}, plus all 2..3-instruction warriors with every entry point, are printed with Warrior.LoadCode() and read back by an independent pMARS-listing reader; instructions (fields mod M) and entry point must match. The freshly built cmd/gmars -A is run on generated source files (every legal form of both dialects, two files per invocation, single files, one file twice, -s/-l/-8 and presets) and every printed block is read back the same way.",
   technique="exhaustive enumeration of warriors, print/read-back against an independent listing reader"),
 "C13": dict(engine="e3-apiseq", design="4/C13",
   text="Breadth-first search to closure over the reachable states of the real simulator (M=4, P=2, 3 cycles, <=3 warriors of 3 kinds) under AddWarrior, SpawnWarrior(i in -1..n+1, off in {0,M-1,M,2M+3}), RunCycle, Run, Reset; after every call the result and the full query battery (run twice) are compared with a reference state machine, every call runs under a non-return watchdog, and in every distinct state Reset+respawn is compared with a fresh simulator over all continuation sequences up to a bound.",
   technique="explicit-state BFS over the real transition function with state hashing + lock-step reference state machine + reset/fresh differential"),
 "C05": dict(engine="e6-termination (instrumented build) + free-running pass", design="4/C05",
   text="Every lexeme string up to a length bound over a 24-lexeme alphabet (incl. NUL, ^Z, invalid UTF-8, CR-LF), every 1- and 2-token mutation of 12 seed programs, every reader chunking / read error up to a deviation bound and every producer/consumer schedule of the lexer and FOR-expander goroutines up to a preemption bound are assembled on the instrumented build under a controlled scheduler: non-return is a deterministic step-budget verdict, a leaked goroutine is a thread still blocked when all others finished; err xor warrior and no panic are checked on every execution; a scaling family checks the step count against a linear budget; a free-running pass on the plain build re-checks goroutine counts.",
   technique="stateless exploration under a controlled scheduler (preemption / deviation bounded DFS) + bounded exhaustive input enumeration with a deterministic step budget"),
 "C14": dict(engine="e7-concurrency (instrumented build) + copy isolation + race pass", design="4/C14",
   text="Scenarios of 2..3 concurrent jobs (three kinds of assembly, load, simulation sharing one configuration value and one WarriorData) run as threads of a controlled scheduler on the instrumented build with scheduling points at every function entry, loop iteration and channel operation: every interleaving up to a deviation bound must give each job its sequential result with no leak or deadlock; every map-iteration order vector with <=2 deviating sites over 14 symbol-table programs must give one result; every (mutation of caller data x API point) pair must leave the simulator's observations unchanged; the caller's one WarriorData variable handed to AddWarrior two and three times (one and two simulators) with every mutation in between must give the warriors that independent deep copies give; 256 shapes of caller data (entry points at and beyond the code length, empty code, spare capacity) must come back untouched from AddWarrior and a battle; configuration neighbourhoods (a base and every valid single-field change) used forwards, backwards and alternating in one process must give every assembly its by-construction meaning and every probe battle the reference MARS result; a free-running -race pass over job sets and thread counts 1..32 complements this for plain-memory races.",
   technique="stateless interleaving exploration under a controlled scheduler (deviation-bounded DFS) + exhaustive map-order and mutation-point enumeration; race detector pass as sampled complement"),
 "C17": dict(engine="e8-cli", design="4/C17",
   text="cmd/gmars is rebuilt from the working tree and run on files rendered from 8 by-construction warriors under every ordered pair x every -F placement x a boundary grid of -s -l -p -c -8 -r, each preset, one-warrior runs, -F at and above the core size; stdout must equal the tallies of the reference MARS, exit status 0. Random placement: the same command built with math/rand replaced through an overlay, every answer sequence of the random source forced for rounds 1..3; tallies must equal the reference results at the placements actually used and every round must be counted exactly once.",
   technique="exhaustive enumeration of flag vectors, placements and forced random answers against the reference MARS"),
}

PENDING = {
}

ENGINES = [
 {"name": "e8-cli", "path": "/verif/mc/engines/e8", "serves_properties": ["C17", "C16"], "kind_free_text": "drives the freshly built cmd/gmars binary over a flag / placement grid; forced random source through a build overlay"},
 {"name": "e7-concurrency", "path": "/verif/mc/engines/e7", "serves_properties": ["C14"], "kind_free_text": "job interleavings and map orders under verif/mc/sched on the instrumented build; copy-isolation grid; free-running race-detector pass"},
 {"name": "e6-termination", "path": "/verif/mc/engines/e6", "serves_properties": ["C05", "C06"], "kind_free_text": "controlled scheduler (verif/mc/sched) over the instrumented build generated by verif/mc/cmd/vinst; token soup, mutations, reader chunkings, schedules"},
 {"name": "e3-apiseq", "path": "/verif/mc/engines/e3", "serves_properties": ["C13"], "kind_free_text": "explicit-state breadth-first search over API call sequences on the real simulator"},
 {"name": "e5-loadfiles", "path": "/verif/mc/engines/e5", "serves_properties": ["C09", "C10", "C16"], "kind_free_text": "canonical load-file printer, layout perturbation and corruption enumerators, listing reader"},
 {"name": "e4-asm", "path": "/verif/mc/engines/e4", "serves_properties": ["C03", "C06", "C07", "C08"], "kind_free_text": "grammar-directed exhaustive generation of assembler inputs with by-construction meaning"},
 {"name": "e2-battles", "path": "/verif/mc/engines/e2", "serves_properties": ["C02", "C12", "C04", "C15"], "kind_free_text": "explicit-state enumeration of whole battles against the reference scheduler; placement differential; configuration boundary product"},
 {"name": "e1-stepspace", "path": "/verif/mc/engines/e1", "serves_properties": ["C01", "C11", "C04", "C15"], "kind_free_text": "explicit-state enumeration of single-step states against the reference step"},
]

def main():
    props = [json.loads(l) for l in open('/verif/properties.jsonl')]
    checks = []
    na = []
    for p in props:
        i = p['id']
        if i in CLAIMED:
            c = CLAIMED[i]
            checks.append({
                "property_id": i,
                "quick_cmd": "./run.sh %s quick" % i,
                "thorough_cmd": "./run.sh %s thorough" % i,
                "evidence_file": "/verif/evidence/%s.json" % i,
                "replay_cmd_template": "./run.sh replay {path}",
                "engine": c["engine"],
                "level_claimed": {"category": "model_checking", "text": c["text"], "design_ref": "DESIGN.md section " + c["design"]},
                "level_note": c.get("note", "Trusted base: Go toolchain, the harness and the reference models in /verif/mc/ref (independent of gmars). Bounds as reported in the evidence file; behaviour above the bounds rests on the code's uniformity in core size / limits."),
                "technique": c["technique"],
            })
        else:
            na.append({"property_id": i, "reason": PENDING.get(i, "check not built yet in this round (planned in DESIGN.md section 8); not claimed until its machinery exists")})
    m = {
        "version": 1,
        "setup_cmd": "./run.sh setup",
        "hooks": {
            "guard": "verif-overlay (no source commits: instrumentation is generated at check time and applied with go build -overlay / -tags verifinst)",
            "enable": "checks build /verif/mc/cmd/vh against /repo's working tree; instrumented engines add -overlay <generated> -tags verifinst",
            "baseline_off_cmd": "cd /repo && GOPROXY=off GOSUMDB=off GOTOOLCHAIN=local go test -vet=off -count=1 .",
            "source_commits": [],
            "add_only": True,
        },
        "engines": ENGINES,
        "checks": checks,
        "not_applicable": na,
        "notes": "All commands run with cwd=/verif. ./run.sh <id> <tier> rebuilds the harness from /repo's working tree on every invocation.",
    }
    json.dump(m, open('/verif/MANIFEST.json', 'w'), indent=1)
    print("checks:", len(checks), "not_applicable:", len(na))

main()

#!/usr/bin/env python3
"""Regenerates /verif/MANIFEST.json from the table below (kept in one place so
that the manifest is valid at all times)."""
import json

CLAIMED = {
 "C01": dict(engine="e1-stepspace", design="4/C01",
   text="Exhaustive enumeration of complete initial states of one simulator step (total space for M=3; all forms x all fields x all limit pairs over dense and sparse cores for M in 4..16), each executed through the public API and compared cell-for-cell and queue-for-queue with an independent ICWS'94 reference step.",
   technique="explicit-state enumeration of step states + lock-step reference model comparison"),
 "C11": dict(engine="e1-stepspace", design="4/C11",
   text="Same exhaustive step spaces as C01 with every (R,W) pair: changed cells within floor(W/2), non-sequential successors within floor(R/2), R=W=M equals the limit-free reference step, and a differential non-interference run in which every cell beyond both distances is replaced.",
   technique="explicit-state enumeration of step states + distance invariants + differential non-interference"),
}

PENDING = {
}

ENGINES = [
 {"name": "e1-stepspace", "path": "/verif/mc/engines/e1", "serves_properties": ["C01", "C11", "C04", "C15"], "kind_free_text": "explicit-state enumeration of single-step states against the reference step"},
]

def main():
    props = [json.loads(l) for l in open('/verif/properties.jsonl')]
    checks = []
    na = []
    for p in props:
        i = p['id']
        if i in CLAIMED:
            c = CLAIMED[i]
            checks.append({
                "property_id": i,
                "quick_cmd": "./run.sh %s quick" % i,
                "thorough_cmd": "./run.sh %s thorough" % i,
                "evidence_file": "/verif/evidence/%s.json" % i,
                "replay_cmd_template": "./run.sh replay {path}",
                "engine": c["engine"],
                "level_claimed": {"category": "model_checking", "text": c["text"], "design_ref": "DESIGN.md section " + c["design"]},
                "level_note": c.get("note", "Trusted base: Go toolchain, the harness and the reference models in /verif/mc/ref (independent of gmars). Bounds as reported in the evidence file; behaviour above the bounds rests on the code's uniformity in core size / limits."),
                "technique": c["technique"],
            })
        else:
            na.append({"property_id": i, "reason": PENDING.get(i, "check not built yet in this round (planned in DESIGN.md section 8); not claimed until its machinery exists")})
    m = {
        "version": 1,
        "setup_cmd": "./run.sh setup",
        "hooks": {
            "guard": "verif-overlay (no source commits: instrumentation is generated at check time and applied with go build -overlay / -tags verifinst)",
            "enable": "checks build /verif/mc/cmd/vh against /repo's working tree; instrumented engines add -overlay <generated> -tags verifinst",
            "baseline_off_cmd": "cd /repo && GOPROXY=off GOSUMDB=off GOTOOLCHAIN=local go test -vet=off -count=1 .",
            "source_commits": [],
            "add_only": True,
        },
        "engines": ENGINES,
        "checks": checks,
        "not_applicable": na,
        "notes": "All commands run with cwd=/verif. ./run.sh <id> <tier> rebuilds the harness from /repo's working tree on every invocation.",
    }
    json.dump(m, open('/verif/MANIFEST.json', 'w'), indent=1)
    print("checks:", len(checks), "not_applicable:", len(na))

main()

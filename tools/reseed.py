#!/usr/bin/env python3
"""Re-runs every stored seeded change (/verif/seeded/*/patch.diff) against the
current machinery: applies it to /repo, runs the property's quick check, undoes
it, and updates the 'checks' / 'detected_by' entries of its meta.json."""
import json, glob, os, subprocess, sys, time
ENV = dict(os.environ, GOPROXY="off", GOSUMDB="off", GOTOOLCHAIN="local", GOFLAGS="", VMC_EVIDENCE_DIR="/verif/.work/seed-evidence")
def sh(cmd, cwd=None, timeout=7200):
    p = subprocess.run(cmd, shell=True, cwd=cwd, env=ENV, capture_output=True, text=True, timeout=timeout)
    return p.returncode, p.stdout + p.stderr
only = sys.argv[1:]
start_from = ''
if only and only[0] == '--from':
    start_from, only = only[1], only[2:]
for mf in sorted(glob.glob('/verif/seeded/*/meta.json')):
    d = os.path.dirname(mf)
    m = json.load(open(mf))
    if only and not any(o in m['name'] for o in only):
        continue
    if start_from and os.path.basename(d) < start_from:
        continue
    rc, st = sh("git -C /repo status --porcelain")
    if st.strip():
        sys.exit("/repo not clean: " + st)
    rc, out = sh("git -C /repo apply %s/patch.diff" % d)
    if rc != 0:
        print(m['name'], "PATCH NO LONGER APPLIES")
        m['reseed'] = "patch no longer applies to the current HEAD of /repo (kept as recorded)"
        json.dump(m, open(mf, 'w'), indent=1)
        continue
    try:
        p = m['property']
        t0 = time.time()
        rc, out = sh("./run.sh %s quick" % p, cwd="/verif")
        lines = out.strip().split("\n")
        kinds = sorted(set(l.strip().split(" ")[0] for l in lines if l.strip().startswith("kind=")))
        viol = [l for l in lines if l.startswith("VIOLATION")]
        m['checks'] = {p: {"tier": "quick", "exit": rc, "violation_lines": len(viol), "kinds": kinds, "wall_s": round(time.time() - t0, 1), "summary": lines[0][:300] if lines else ""}}
        m['detected_by'] = [p] if rc == 1 and viol else []
        m.pop('reseed', None)
        print(m['name'], 'detected' if m['detected_by'] else 'NOT DETECTED (exit %d)' % rc, kinds, m['checks'][p]['wall_s'])
    finally:
        sh("git -C /repo checkout -- .")
        sh("git -C /repo clean -fdq")
    json.dump(m, open(mf, 'w'), indent=1)
print("RESEED DONE")

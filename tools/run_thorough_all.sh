#!/bin/sh
# Runs every thorough check against /repo and keeps a copy of each evidence file under
# /verif/evidence_thorough (the files under /verif/evidence are rewritten by every run).
cd /verif
for p in C02 C03 C05 C06 C07 C08 C09 C10 C12 C13 C14 C16 C17 C04 C15 C01 C11; do
  ./run.sh $p thorough 2>&1 | head -8 | cut -c1-300
  cp evidence/$p.json evidence_thorough/$p.json
done
echo THOROUGH-ALL-DONE

#!/usr/bin/env python3
"""Rewrites section 13 of DESIGN.md from /verif/mutation/*.jsonl (results of
tools/mutation.py) and /verif/mutation/classified.json (hand-written reasons
for the mutants no check reports, keyed "file:mutant")."""
import json, glob, os, collections

cls = {}
if os.path.exists('/verif/mutation/classified.json'):
    cls = json.load(open('/verif/mutation/classified.json'))
rows, surv = [], []
tot = collections.Counter()
for f in sorted(glob.glob('/verif/mutation/*.jsonl')):
    recs = {}
    for l in open(f):
        r = json.loads(l)
        recs[r['mutant']] = r  # the last run of a mutant counts
    c = collections.Counter()
    by = collections.Counter()
    for r in recs.values():
        res = r['result'].split(':')[0]
        c[res] += 1
        if res == 'reported':
            by[r['by'].split(' ')[0]] += 1
        if res == 'survived':
            key = '%s:%d' % (r['file'], r['mutant'])
            surv.append((key, r['what'].replace('/repo/', ''), cls.get(key, 'NOT YET CLASSIFIED')))
    name = os.path.basename(f)[:-6]
    examined = c['reported'] + c['survived']
    rows.append('| %s | %d | %d | %d | %d | %d | %s |' % (name, len(recs), c['compile'], c['suite'], c['reported'], c['survived'],
                                                       ', '.join('%s %d' % kv for kv in sorted(by.items()))))
    for k in c:
        tot[k] += c[k]
    tot['all'] += len(recs)
body = ['## 13. Mutation analysis', '',
        'A measurement, not a check (`tools/mutation.py`, `tools/mutate/`): every single-point change of the listed',
        'files (operator swaps, a dropped `% m`, literals +1, negated conditions, deleted call / assignment / increment',
        'statements, `true`<->`false`) is applied to a scratch worktree. A mutant that does not compile or that the',
        "repository's own suite already rejects is set aside; for the others the plain-build worker is built against the",
        'mutant and the quick-tier spaces mapped to the file run (16 shards, a worker stops at its first violation)',
        'until one reports it (the step-space and report spaces with a cap of 45 s per worker). To fit the time',
        '`sim.go`, `load.go` and `forexpand.go` were taken at every second mutant and `simops.go`, `compile.go` and',
        '`parser.go` at every fourth; the other files completely. The instrumented-build engines (the scheduler exploration of C05/C14) and the CLI',
        'engine are not part of this measurement. Three mutants that first went unreported pointed at real gaps, which',
        'were closed before the table below was produced: the address of a WarriorRead report was not compared with',
        'the cells the operands read (e1: `read-report-address`); the read-recording StateRecorder was only checked',
        'with a single warrior, so its owner field was never exercised (e2: `recorder-state-with-reads` against an',
        'independent fold of the report stream); and the default-modifier table shared by loader and assembler was',
        'only mapped to the loader checks (C03 added to the plan for `load.go`).', '',
        '| file | mutants | do not compile | rejected by the suite | reported by a check | reported by none | first reporting check |',
        '|---|---|---|---|---|---|---|'] + rows
examined = tot['reported'] + tot['survived']
if examined:
    body += ['', 'Of the %d mutants that compile and pass the suite, %d (%.1f%%) are reported by a quick check. The %d that no check'
             % (examined, tot['reported'], 100.0 * tot['reported'] / examined, tot['survived']),
             'reports, each with the reason it is not a violation of any of the 17 properties (or the gap it shows):', '',
             '| mutant | change | why no check reports it |', '|---|---|---|']
    body += ['| `%s` | %s | %s |' % s for s in surv]
s = open('/verif/DESIGN.md').read()
marker = '## 13. Mutation analysis'
if marker in s:
    s = s[:s.index(marker)]
    s = s.rstrip('\n').rstrip('-').rstrip('\n') + '\n\n---------------------------------------------------------------------------\n\n'
else:
    s = s.rstrip('\n') + '\n\n---------------------------------------------------------------------------\n\n'
open('/verif/DESIGN.md', 'w').write(s + '\n'.join(body) + '\n')
print('mutation table:', dict(tot))

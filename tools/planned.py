#!/usr/bin/env python3
"""Applies each hand-written one-line change of the list below to /repo, makes
sure the repository's suite still passes with it (otherwise the change is not
interesting: the suite already catches it), runs the property's quick check,
and undoes the change. Results go to /verif/seeded/planned/results.json."""
import json, os, subprocess, sys, time

ENV = dict(os.environ, GOPROXY="off", GOSUMDB="off", GOTOOLCHAIN="local", GOFLAGS="")

# (id, property, file, old, new, what)
M = [
 ("mov-x-swapped", "C01", "simops.go", "\t\ts.mem[WAB].B = IRA.A\n\t\ts.mem[WAB].A = IRA.B\n", "\t\ts.mem[WAB].B = IRA.B\n\t\ts.mem[WAB].A = IRA.A\n", "MOV.X copies like MOV.F"),
 ("add-ba-no-modulo", "C01", "simops.go", "\t\ts.mem[WAB].A = (IRB.A + IRA.B) % s.m\n\tcase I:", "\t\ts.mem[WAB].A = (IRB.A + IRA.B)\n\tcase I:", "ADD.BA without % M"),
 ("djn-f-and", "C01", "simops.go", "if IRB.B != 0 || IRB.A != 0 {", "if IRB.B != 0 && IRB.A != 0 {", "DJN.F jumps only if both fields are non-zero"),
 ("slt-x-wrong-pair", "C01", "simops.go", "if IRA.A < IRB.B && IRA.B < IRB.A {", "if IRA.A < IRB.A && IRA.B < IRB.B {", "SLT.X compares like SLT.F"),
 ("cmp-i-ignores-bmode", "C01", "simops.go", "\t\t\tIRA.BMode == IRB.BMode && IRA.B == IRB.B {\n\t\t\tnextPC = (PC + 2) % s.m\n\t\t}\n\t}\n\ts.Report(Report{Type: WarriorTaskPush, WarriorIndex: w.index, Address: nextPC})\n\tw.pq.Push(nextPC)\n}\n\nfunc (s *reportSim) sne", "\t\t\tIRA.B == IRB.B {\n\t\t\tnextPC = (PC + 2) % s.m\n\t\t}\n\t}\n\ts.Report(Report{Type: WarriorTaskPush, WarriorIndex: w.index, Address: nextPC})\n\tw.pq.Push(nextPC)\n}\n\nfunc (s *reportSim) sne", "CMP.I ignores the B addressing mode"),
 ("jmz-f-or", "C01", "simops.go", "if IRB.A == 0 && IRB.B == 0 {", "if IRB.A == 0 || IRB.B == 0 {", "JMZ.F jumps if either field is zero"),
 ("mod-x-fields", "C01", "simops.go", "\t\t\ts.mem[WAB].B = IRB.B % IRA.A\n\t\t}\n\t\tif IRA.B != 0 {\n\t\t\ts.mem[WAB].A = IRB.A % IRA.B", "\t\t\ts.mem[WAB].B = IRB.B % IRA.B\n\t\t}\n\t\tif IRA.B != 0 {\n\t\t\ts.mem[WAB].A = IRB.A % IRA.A", "MOD.X uses the fields of MOD.F"),
 ("spl-order", "C02", "sim.go", "\t\tw.pq.Push((PC + 1) % s.m)\n\t\tw.pq.Push(RAB)\n", "\t\tw.pq.Push(RAB)\n\t\tw.pq.Push((PC + 1) % s.m)\n", "SPL queues the new task first"),
 ("run-loop-le", "C02", "sim.go", "\tfor s.cycleCount < s.maxCycles {\n", "\tfor s.cycleCount <= s.maxCycles {\n", "Run loop condition <="),
 ("early-stop-without-count-guard", "C02", "sim.go", "\t\t\t\tif s.warriorCount > 1 {\n\t\t\t\t\tif s.warriorLivingCount == 1 {", "\t\t\t\tif s.warriorCount > 0 {\n\t\t\t\t\tif s.warriorLivingCount == 1 {", "early stop test without the several-warriors guard"),
 ("queue-push-ignores-capacity-at-wrap", "C04", "queue.go", "\tif q.length >= q.size {\n\t\treturn\n\t}", "\tif q.length >= q.size && q.end != 0 {\n\t\treturn\n\t}", "Push ignores the capacity when the ring end is at slot 0"),
 ("validate-without-coresize", "C04", "config.go", "\tif c.CoreSize < 3 {", "\tif c.CoreSize < 0 {", "Validate accepts core sizes below 3"),
 ("validate-without-processes", "C04", "config.go", "\tif c.Processes < 1 {", "\tif c.Processes < 0 {", "Validate accepts a process limit of 0"),
 ("djn-decrement-underflow", "C01", "simops.go", "\t\ts.mem[WAB].B = (s.mem[WAB].B + s.m - 1) % s.m\n\t\tIRB.B -= 1\n\t\tif IRB.B != 0 {", "\t\ts.mem[WAB].B = (s.mem[WAB].B - 1) % s.m\n\t\tIRB.B -= 1\n\t\tif IRB.B != 0 {", "DJN.B decrement without + M"),
 ("parser-label-case", "C03", "asm.go", "func getOpCode(op string) (OpCode, error) {\n\tswitch strings.ToLower(op) {", "func getOpCode(op string) (OpCode, error) {\n\tswitch op {", "opcodes recognised in lower case only"),
 ("lone-operand-into-b", "C03", "compile.go", "\t\tif op == DAT {\n\t\t\t// move aVal/aMode to B", "\t\tif op == DAT || op == JMP {\n\t\t\t// move aVal/aMode to B", "lone operand of JMP placed in the B field"),
 ("label-offset-from-source-line", "C03", "parser.go", "\tp.currentLine.codeLine = p.codeLine\n", "\tp.currentLine.codeLine = p.line - 1\n", "label offsets computed from the source line number"),
 ("slt-default-always-b", "C03", "load.go", "\tcase SLT:\n\t\tif AMode == IMMEDIATE {\n\t\t\treturn AB, nil\n\t\t} else {\n\t\t\treturn B, nil\n\t\t}\n\n\tcase ADD:", "\tcase SLT:\n\t\treturn B, nil\n\n\tcase ADD:", "SLT default modifier always .B"),
 ("strategy-not-captured", "C03", "parser.go", "\t\t\tif len(p.nextToken.val) > 10 {\n\t\t\t\tp.metadata.Strategy += p.nextToken.val[10:] + \"\\n\"\n\t\t\t}", "\t\t\tif len(p.nextToken.val) > 10 && p.metadata.Strategy == \"\" {\n\t\t\t\tp.metadata.Strategy += p.nextToken.val[10:] + \"\\n\"\n\t\t\t}", "only the first ;strategy line is captured"),
 ("lexer-keeps-leading-zeros", "C07", "lex.go", "\tfor l.nextRune == '0' {\n\t\t_, eof := l.next()\n\t\tif eof {\n\t\t\tl.tokens <- token{tokNumber, \"0\"}\n\t\t\tl.tokens <- token{typ: tokEOF}\n\t\t\treturn nil\n\t\t}\n\t}\n", "", "leading zeros are kept (010 is read as octal by the evaluator)"),
 ("maxlength-bound-to-processes", "C07", "compile.go", "c.values[\"MAXLENGTH\"] = []token{{tokNumber, fmt.Sprintf(\"%d\", c.config.Length)}}", "c.values[\"MAXLENGTH\"] = []token{{tokNumber, fmt.Sprintf(\"%d\", c.config.Processes)}}", "MAXLENGTH bound to the process limit"),
 ("flip-without-skip", "C07", "expr.go", "\t\t\t\tout = append(out, token{tokSymbol, \"+\"})\n\t\t\t\ti += 1\n\t\t\t\tcontinue", "\t\t\t\tout = append(out, token{tokSymbol, \"+\"})\n\t\t\t\tcontinue", "flipDoubleNegatives does not skip the second minus"),
 ("negative-reduction-missing", "C07", "compile.go", "\taVal = aVal % int(c.m)\n\tif aVal < 0 {\n\t\taVal = (int(c.m) + aVal) % int(c.m)\n\t}", "\taVal = aVal % int(c.m)\n\tif aVal < 0 {\n\t\taVal = -aVal\n\t}", "negative A values reduced by absolute value"),
 ("fordepth-not-decremented", "C08", "forexpand.go", "\t\t\t\tif f.forDepth > 0 {\n\t\t\t\t\tf.forDepth -= 1\n", "\t\t\t\tif f.forDepth > 0 {\n", "inner ROF does not decrement the nesting depth"),
 ("counter-from-zero", "C08", "forexpand.go", "\tfor i := 1; i <= f.forCount; i++ {", "\tfor i := 0; i < f.forCount; i++ {", "FOR counter starts at 0"),
 ("zero-count-expands-once", "C08", "forexpand.go", "\tf.forCount = val\n", "\tf.forCount = val\n\tif f.forCount == 0 {\n\t\tf.forCount = 1\n\t}\n", "a zero count expands once"),
 ("parseaddress-no-negative", "C09", "asm.go", "\tif val < 0 {\n\t\tval = (m + val) % m\n\t}\n\n\treturn Address(val), nil", "\tif val < 0 {\n\t\tval = -val\n\t}\n\n\treturn Address(val), nil", "negative load-file fields read as their absolute value"),
 ("loader-94-end-arg-accepted", "C10", "load.go", "\t\t\tif len(fields) == 1 && fields[0] == \"end\" {\n\t\t\t\tbreak\n\t\t\t}", "\t\t\tif fields[0] == \"end\" {\n\t\t\t\tbreak\n\t\t\t}\n\t\t\tif fields[0] == \"nop\" {\n\t\t\t\tcontinue\n\t\t\t}", "a line starting with nop and the wrong number of fields is skipped by the '94 loader"),
 ("loader-88-start-check-dropped", "C10", "load.go", "\tif data.Start != 0 && data.Start >= len(data.Code) {", "\tif data.Start != 0 && data.Start > len(data.Code) {", "'88 loader final entry-point check off by one"),
 ("writefold-uses-readlimit", "C11", "sim.go", "\tres := pointer % s.writeLimit\n\tif res > (s.writeLimit / 2) {\n\t\tres += (s.m - s.writeLimit)", "\tres := pointer % s.writeLimit\n\tif res > (s.readLimit / 2) {\n\t\tres += (s.m - s.writeLimit)", "writeFold compares with half the read limit"),
 ("pip-from-rpa", "C11", "sim.go", "\t\t\tif IR.AMode == B_INCREMENT {\n\t\t\t\tPIP = (PC + WPA) % s.m\n\t\t\t}", "\t\t\tif IR.AMode == B_INCREMENT {\n\t\t\t\tPIP = (PC + RPA) % s.m\n\t\t\t}", "A-operand post-increment pointer taken through the read pointer"),
 ("fold-ge", "C11", "sim.go", "\tres := pointer % s.readLimit\n\tif res > (s.readLimit / 2) {", "\tres := pointer % s.readLimit\n\tif res >= (s.readLimit / 2) {", "readFold compares with >="),
 ("spawn-no-wrap-in-range", "C12", "sim.go", "\t\ts.mem[(startOffset+i)%s.m] = w.data.Code[i]\n", "\t\tif startOffset+i < s.m {\n\t\t\ts.mem[startOffset+i] = w.data.Code[i]\n\t\t}\n", "spawn drops the part of the code that wraps"),
 ("nop-push-unreduced", "C12", "sim.go", "\tcase NOP:\n\t\tw.pq.Push((PC + 1) % s.m)", "\tcase NOP:\n\t\tw.pq.Push(PC + 1)", "NOP queues PC+1 unreduced"),
 ("reset-keeps-cycle-count", "C13", "sim.go", "\ts.cycleCount = 0\n\ts.warriorLivingCount = 0\n}", "\ts.warriorLivingCount = 0\n}", "Reset does not clear the cycle count"),
 ("respawn-dead-keeps-living-count", "C13", "sim.go", "\tw.state = WarriorAlive\n\ts.warriorLivingCount += 1\n", "\tif w.state != WarriorDead {\n\t\ts.warriorLivingCount += 1\n\t}\n\tw.state = WarriorAlive\n", "respawning a dead warrior does not count it as living"),
 ("spawn-error-still-loads", "C13", "sim.go", "\tif w.state == WarriorAlive {\n\t\treturn fmt.Errorf(\"warrior already spawned\")\n\t}\n", "\tif w.state == WarriorAlive {\n\t\ts.mem[startOffset%s.m] = Instruction{}\n\t\treturn fmt.Errorf(\"warrior already spawned\")\n\t}\n", "a refused spawn clears a core cell"),
 ("copy-shares-slice", "C14", "warrior.go", "\tcodeCopy := make([]Instruction, len(w.Code))\n\tcopy(codeCopy, w.Code)\n", "\tcodeCopy := w.Code[:len(w.Code):len(w.Code)]\n", "WarriorData.Copy shares the code slice"),
 ("graph-cycle-first-key-only", "C14", "graph.go", "\t\tnodeCycle, cycleKey := nodeContainsCycle(key, graph, []string{})\n\t\tif nodeCycle {\n\t\t\treturn true, cycleKey\n\t\t}\n", "\t\tnodeCycle, cycleKey := nodeContainsCycle(key, graph, []string{})\n\t\treturn nodeCycle, cycleKey\n", "the cycle check looks at the first key of the map iteration only"),
 ("write-report-at-rab", "C15", "sim.go", "\t\ts.mov(IR, IRA, WAB, PC, w)\n\t\ts.Report(Report{Type: WarriorWrite, WarriorIndex: w.index, Address: WAB})", "\t\ts.mov(IR, IRA, WAB, PC, w)\n\t\ts.Report(Report{Type: WarriorWrite, WarriorIndex: w.index, Address: RAB})", "MOV write reported at the A-operand address"),
 ("taskpop-after-exec", "C15", "sim.go", "\t\t\ts.Report(Report{Type: WarriorTaskPop, Cycle: int(s.cycleCount), WarriorIndex: i, Address: pc})\n\n\t\t\ts.exec(pc, s.warriors[i])\n", "\t\t\ts.exec(pc, s.warriors[i])\n\t\t\ts.Report(Report{Type: WarriorTaskPop, Cycle: int(s.cycleCount), WarriorIndex: i, Address: pc})\n", "the task pop is announced after the task ran"),
 ("recorder-reset-keeps-color", "C15", "staterecorder.go", "\t\tr.state[i] = CoreEmpty\n\t\tr.color[i] = -1\n", "\t\tr.state[i] = CoreEmpty\n", "the recorder keeps the owners across a reset"),
 ("listing-modes-swapped", "C16", "warrior.go", "\t\t\tinst.AMode,\n\t\t\tw.sim.addressSigned(inst.A),\n\t\t\tinst.BMode, w.sim.addressSigned(inst.B))", "\t\t\tinst.BMode,\n\t\t\tw.sim.addressSigned(inst.A),\n\t\t\tinst.AMode, w.sim.addressSigned(inst.B))", "A and B modes swapped in the listing"),
 ("listing-start-off-by-one", "C16", "warrior.go", "\t\tif i == int(w.data.Start) {", "\t\tif i == int(w.data.Start)+1 || (i == 0 && int(w.data.Start) == len(w.data.Code)-1) {", "START printed one line late"),
 ("sign-threshold", "C16", "sim.go", "\tif a > (s.m / 2) {\n\t\treturn -(int(s.m) - int(a))", "\tif a > (s.m/2 + 1) {\n\t\treturn -(int(s.m) - int(a))", "sign threshold one too high"),
 ("wins-swapped", "C17", "cmd/gmars/main.go", "\t\t\t\t} else {\n\t\t\t\t\tw1win += 1\n\t\t\t\t}", "\t\t\t\t} else {\n\t\t\t\t\tw2win += 1\n\t\t\t\t}", "a win of warrior 1 counted for warrior 2"),
 ("fixed-ignored-in-later-rounds", "C17", "cmd/gmars/main.go", "\t\tw2start := *fixedFlag\n\t\tif w2start == 0 {", "\t\tw2start := *fixedFlag\n\t\tif w2start == 0 || i > 0 {", "-F honoured in the first round only"),
 ("length-flag-to-distance-only", "C17", "cmd/gmars/main.go", "\t\tcycles := gmars.Address(*cycleFlag)\n", "\t\tcycles := gmars.Address(*cycleFlag) + gmars.Address(*roundFlag) - 1\n", "-r leaks into the cycle limit"),
]


def sh(cmd, cwd=None, timeout=3600):
    p = subprocess.run(cmd, shell=True, cwd=cwd, env=ENV, capture_output=True, text=True, timeout=timeout)
    return p.returncode, p.stdout + p.stderr


def main():
    only = set(sys.argv[1:])
    out = {}
    resf = '/verif/seeded/planned/results.json'
    if os.path.exists(resf):
        out = json.load(open(resf))
    rc, st = sh("git -C /repo status --porcelain")
    if st.strip():
        sys.exit("/repo not clean")
    for mid, prop, f, old, new, what in M:
        if only and mid not in only and prop not in only:
            continue
        path = os.path.join('/repo', f)
        src = open(path).read()
        if src.count(old) != 1:
            out[mid] = {"property": prop, "what": what, "status": "pattern not found (%d)" % src.count(old)}
            print(mid, out[mid]["status"])
            continue
        open(path, 'w').write(src.replace(old, new))
        try:
            rc, o = sh("timeout 600 go build ./ ./cmd/gmars && timeout 600 go test -vet=off -count=1 .", cwd="/repo")
            if os.path.exists('/repo/gmars'):
                os.remove('/repo/gmars')
            if rc != 0:
                out[mid] = {"property": prop, "what": what, "status": "not interesting: the repository's suite (or the build) fails with it", "suite": o[-300:]}
                print(mid, "suite fails")
                continue
            t0 = time.time()
            rc, o = sh("./run.sh %s quick" % prop, cwd="/verif")
            kinds = sorted(set(l.strip().split(" ")[0].replace("kind=", "") for l in o.split("\n") if l.strip().startswith("kind=")))
            out[mid] = {"property": prop, "file": f, "what": what, "status": "reported" if rc == 1 and "VIOLATION" in o else "NOT REPORTED (exit %d)" % rc, "kinds": kinds, "wall_s": round(time.time() - t0, 1)}
            print(mid, prop, out[mid]["status"], kinds)
        finally:
            sh("git -C /repo checkout -- .")
        json.dump(out, open(resf, 'w'), indent=1)
    json.dump(out, open(resf, 'w'), indent=1)


main()

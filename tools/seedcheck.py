#!/usr/bin/env python3
"""Confirms a seeded property-breaking change and runs the checks against it.

usage: seedcheck.py <property-id> <name> <patch.diff> <demo file> [--tier quick|thorough] [--also C02,C04]

1. in a scratch worktree of /repo (outside /repo and /verif): the existing suite
   passes with the patch, the demonstration fails with it and passes without it;
2. the patch is applied to /repo, `./run.sh <id> <tier>` is run, the patch is
   undone straight afterwards;
3. patch, demonstration and meta.json are stored under /verif/seeded/<name>/.
"""
import json, os, shutil, subprocess, sys, time

ENV = dict(os.environ, GOPROXY="off", GOSUMDB="off", GOTOOLCHAIN="local", GOFLAGS="", VMC_EVIDENCE_DIR="/verif/.work/seed-evidence")


def sh(cmd, cwd=None, timeout=1800):
    p = subprocess.run(cmd, shell=True, cwd=cwd, env=ENV, capture_output=True, text=True, timeout=timeout)
    return p.returncode, (p.stdout + p.stderr)


def main():
    prop, name, patch, demo = sys.argv[1:5]
    tier = "quick"
    also = []
    rest = sys.argv[5:]
    for i, a in enumerate(rest):
        if a == "--tier":
            tier = rest[i + 1]
        if a == "--also":
            also = rest[i + 1].split(",")
    wt = "/tmp/wt/confirm-%d" % os.getpid()
    rc, out = sh("git -C /repo status --porcelain")
    if out.strip():
        sys.exit("/repo is not clean: " + out)
    meta = {"property": prop, "name": name, "ran": []}
    sh("git -C /repo worktree add -q --detach %s HEAD" % wt)
    try:
        is_sh = demo.endswith(".sh")
        demo_name = os.path.basename(demo)

        def run_demo():
            if is_sh:
                txt = open(demo).read().replace("/tmp/wt/%s" % prop, wt)
                open(wt + "-demo.sh", "w").write(txt)
                os.makedirs("/tmp/wt/%s-demo" % prop, exist_ok=True)
                return sh("bash %s-demo.sh" % wt, timeout=600)
            shutil.copy(demo, os.path.join(wt, "zz_" + demo_name))
            fn = "TestDemo"
            r = sh("timeout 600 go test -vet=off -count=1 -run %s ." % fn, cwd=wt)
            if "-race" in open(os.path.join(os.path.dirname(demo), demo_name.replace("demo", "meta").replace("_test.go", ".txt"))).read() and r[0] == 0:
                r = sh("timeout 900 go test -race -vet=off -count=1 -run %s ." % fn, cwd=wt)
            os.remove(os.path.join(wt, "zz_" + demo_name))
            return r

        rc0, out0 = run_demo()
        meta["demo_without_change"] = "passes" if rc0 == 0 else "FAILS: " + out0[-400:]
        rc, out = sh("git apply %s" % patch, cwd=wt)
        if rc != 0:
            sys.exit("patch does not apply: " + out)
        rc1, out1 = sh("timeout 900 go test -vet=off -count=1 .", cwd=wt)
        meta["suite_with_change"] = "passes" if rc1 == 0 else "FAILS: " + out1[-400:]
        rcb, outb = sh("go build ./cmd/gmars", cwd=wt)
        meta["cmd_gmars_builds"] = rcb == 0
        if os.path.exists(os.path.join(wt, "gmars")):
            os.remove(os.path.join(wt, "gmars"))
        rc2, out2 = run_demo()
        meta["demo_with_change"] = "fails" if rc2 != 0 else "PASSES (does not demonstrate)"
        meta["demo_output_with_change"] = out2[-600:]
        confirmed = rc0 == 0 and rc1 == 0 and rc2 != 0
        meta["confirmed"] = confirmed
    finally:
        sh("git -C /repo worktree remove --force %s" % wt)
        if os.path.exists(wt + "-demo.sh"):
            os.remove(wt + "-demo.sh")
    results = {}
    if meta["confirmed"]:
        rc, out = sh("git -C /repo apply %s" % patch)
        try:
            for p in [prop] + also:
                t0 = time.time()
                rc, out = sh("./run.sh %s %s" % (p, tier), cwd="/verif", timeout=7200)
                lines = out.strip().split("\n")
                viol = [l for l in lines if l.startswith("VIOLATION")]
                kinds = sorted(set(l.strip().split(" ")[0] for l in lines if l.strip().startswith("kind=")))
                results[p] = {"tier": tier, "exit": rc, "violation_lines": len(viol), "kinds": kinds, "wall_s": round(time.time() - t0, 1), "summary": lines[0][:300] if lines else ""}
                meta["ran"].append("./run.sh %s %s -> exit %d" % (p, tier, rc))
        finally:
            sh("git -C /repo checkout -- .")
            sh("git -C /repo clean -fdq")
        rc, out = sh("git -C /repo status --porcelain")
        if out.strip():
            print("WARNING: /repo not clean after the run:", out)
    meta["checks"] = results
    meta["detected_by"] = [p for p, r in results.items() if r["exit"] == 1 and r["violation_lines"] > 0]
    d = "/verif/seeded/%s" % name
    os.makedirs(d, exist_ok=True)
    shutil.copy(patch, os.path.join(d, "patch.diff"))
    shutil.copy(demo, os.path.join(d, os.path.basename(demo)))
    mt = os.path.join(os.path.dirname(demo), os.path.basename(demo).replace("demo", "meta").replace("_test.go", ".txt").replace(".sh", ".txt"))
    if os.path.exists(mt):
        meta["needs_to_manifest"] = open(mt).read()[:1500]
    json.dump(meta, open(os.path.join(d, "meta.json"), "w"), indent=1)
    print(json.dumps({k: meta[k] for k in ("name", "confirmed", "detected_by", "checks", "suite_with_change", "demo_with_change", "demo_without_change")}, indent=1))


main()

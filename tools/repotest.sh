#!/bin/sh
# Runs the repository's own test suite (hooks off) with a timeout; exit status is the suite's.
cd /repo && GOPROXY=off GOSUMDB=off GOTOOLCHAIN=local timeout 300 go test -vet=off -count=1 . 

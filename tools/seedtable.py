#!/usr/bin/env python3
"""Rewrites section 12 of DESIGN.md from /verif/seeded/*/meta.json."""
import json, glob, os, re
rows = []
for d in sorted(glob.glob('/verif/seeded/*/meta.json')):
    m = json.load(open(d))
    name = m['name']
    need = (m.get('needs_to_manifest') or '').strip().split('\n')
    # first informative line of the agent's meta file
    desc = ''
    for l in need:
        l = l.strip(' #*-=')
        if len(l) > 30 and not l.lower().startswith(('change', 'meta', 'property')):
            desc = l
            break
    det = ', '.join('%s %s (%s)' % (p, r['tier'], '/'.join(k.replace('kind=', '') for k in r['kinds'][:3])) for p, r in m['checks'].items() if r['exit'] == 1) or 'NOT DETECTED'
    rows.append('| `%s` | %s | %s | %s |' % (name, m['property'], desc[:170].replace('|', '/'), det))
table = ['| seeded change (directory under /verif/seeded) | property | what it needs to manifest | reported by |', '|---|---|---|---|'] + rows
s = open('/verif/DESIGN.md').read()
i = s.index('## 12. Seeded changes')
head = s[:i]
# section 13 (written by tools/muttable.py) follows this one and is kept
tail13 = ''
if '## 13. Mutation analysis' in s:
    j = s.index('## 13. Mutation analysis')
    tail13 = '\n---------------------------------------------------------------------------\n\n' + s[j:]
body = '''## 12. Seeded changes: which check catches which

Each change below was written by a fresh sub-agent that saw only the text of
one property and its own scratch worktree of the repository (nothing from
/verif). For each one it was confirmed in another scratch worktree that the
repository's suite still passes with the change, that the agent's own
demonstration fails with it and passes without it; then the change was applied
to /repo, the property's check was run, and the change was undone
(`tools/seedcheck.py`). `meta.json` in each directory records what was run.

First round: 34 changes (2 per property, one agent per property). 26 were
reported at once by the quick tier. The 8 that were missed pointed at holes in
the enumerated spaces, which were then widened (no oracle had to change): a
process limit that is not a power of two in C04's quick tier; non-zero
multiples of the core size as `;assert` / FOR / ORG values and constants in
asserts (C07); an EQU defined between two FOR blocks (C08); a warrior exactly as
long as the configured maximum (C09); field values below -M in load files
(C10); a skip instruction in the quick alphabet of C12 (executed at the last
address); FOR counts that depend on several EQUs in C14's map-order programs; a
process-limit-sensitive warrior pair in the CLI grid (C17).

Second round: 34 more (agents were told which ideas had been used and asked for
subtler ones). While they were being written the spaces were widened again from
reading the first round's lessons (process limits 5..17 in C02, a post-increment
letter in the battle alphabet, load offsets >= M under the recording listener,
label division/remainder operands in C03, several asserts per program in C07,
the NOP94 mode in C16, core size == 3*length+1 for random placement in C17,
warrior data without metadata in the copy-isolation grid). 33 were reported;
the one miss (an unlocked package-level cache built lazily by concurrent FOR
expansions: a data race that leaves results unchanged) was hidden by the race
pass computing its sequential reference results *before* the concurrent rounds,
which warmed the cache. The pass now starts with the widest fan-out on a cold
process and computes the reference afterwards.

Third round: 17 more (one per property; agents were asked for changes whose
effect depends on scale or history: counters in narrow integer types, values
above 16 or 32 bits, state kept between steps or across resets, very long
lines and programs). Before and while they were being written the spaces were
widened along the same lines (section 10); of the 17, 14 were reported at once
and 3 needed further widening: operand pointers kept on the simulator between
steps (C01: every step state is now followed by a second step on the same
simulator, with neighbour cells that have immediate operands); folding by a
fixed-point reciprocal, wrong only above 46508 cells (C11: the large-core space
now also runs under C11, from the first cell too, with limits below the core
size and pointers just under a multiple of the limit); an 8-bit reset epoch in
the StateRecorder (C15: one simulator through 70000 battles separated by
Reset). Two harness faults showed up on the way and were repaired: replays of
large-core rotation witnesses and of second-step witnesses did not take the
same path as the enumeration.

Fourth round: 34 more (two per property; agents were asked for plausible
refactorings that go wrong in a corner needing a specific combination). 30 were
reported at once; the 4 misses were: a JMZ that treats target address 0 as "not
taken", and an A-operand side-effect cell computed as fold(PC+a) (C12: the
battle alphabet had lost its JMZ letter in an earlier edit and had no A-operand
side-effect modes; it now has 20 letters and the single-warrior rotations use
all of them); an '88 listing that prints a modifier for SLT (C16: the
independent listing reader now refuses modifiers in '88 listings and
modifier-less lines in '94 listings, as the property says); ORG naming a label
on the END line (C06: `org fin ... fin end` added to the entry-point grid).
Widening C08's surface variants for this round (a trailing comment on every
line) exposed defect D23 of the unchanged tree.

Fifth round: 17 more (one per property). This time the agents were told what
the checks enumerate (core sizes, alphabets, bounds) and asked for the change a
bounded enumeration would most plausibly miss: effects that need a scale, a
history or a parameter value *between* the enumerated ones. Before they
reported, the spaces were widened along the hints given to them (complete
warriors of up to ten instructions on cores of 80..65536 cells in lock step,
every form on 256/4096/65536-cell cores, a second configuration of the API
search, operator chains, FOR counts 7..100, buffer-boundary sweeps, listing
widths, mid-range CLI values). 3 were reported at once (C05, C06, C07); the
other 14 each named a real blind spot, closed as a class rather than for the
one input:

* C01 - folding by a 32-bit reciprocal, wrong on 5627 core sizes in
  46508..65535 only: the new **core-size sweep** (every size 4..70001, 48 probe
  steps each, section 10).
* C02 - an index kept by RunCycle across Reset: every small battle is now
  followed by a **second round on the same simulator** under the same lock-step
  comparison.
* C04 - a panic for limits in [2M+3, 4M-5]: the configuration grid gained
  **every read x write limit up to 4M+2** for M in {3,4,5,8} and the six
  presets (nop256 has limits above its core size), and the step space a
  limits-above-the-core space (invariants only).
* C11 - limits ignored in ICWS88 mode: the step space is repeated under the
  **other simulator modes**.
* C12 - offsets just below 2^64 overflow when the reduction is dropped: a
  **fourth offset spelling** (the largest multiple of M that fits).
* C03 - labels whose upper-case form is a mnemonic (`ſub`, `dıv`): non-ASCII
  label spellings; the lower-case analogue `dİv` exposed defect D24 of the
  unchanged tree.
* C08 - comment lines dropped from FOR bodies (`;assert`, `;name` inside a
  body): a **FOR-versus-textual-unrolling differential** over bodies with
  meaningful comment lines.
* C09 - a lexer that takes a short read for the end of input: **every text
  also goes through a reader that returns short reads**.
* C10 - a 1 MiB line limit with the scanner's error ignored: **lines of
  2^k-1, 2^k, 2^k+1 bytes up to 4 MiB** followed by valid and invalid lines
  (this also required passing long witnesses to replay workers through files).
* C13 - handles invalidated by the ninth AddWarrior: **directed histories with
  4..65 and 300 warriors**.
* C14 - AddWarrior normalising the caller's data in place when fields exceed
  the core size: the isolation grid gained **data with fields beyond the core**.
* C15 - the recorder's owner in 16 bits: **simulators holding 70000 warriors**.
* C16 - a memo key with 25 bits per field: a **core of 2^26+3 cells** with
  fields around the powers of two.
* C17 - a result channel of 1024 entries: **-r 255 / 1025 / 4097 / 70000**.

Sixth round: 34 more (two per property), coverage-guided: the agents ran the
repository's suite with a coverage profile and looked for statements that no
test executes, or executes without asserting on the result, and changed those
(merged branches, extracted helpers with one case lost, fast paths). 30 were
reported at once. The 4 misses and what they widened: blanks inside `;name` /
`;author` texts collapsed (C03: a family of metadata texts with double blanks,
tabs, punctuation, non-ASCII letters, 480 characters, bare and with blanks
around them); `;assert` followed by a tab, or directly by a parenthesis or
sign, taken for a plain comment (C07: the separator after the keyword varies
in every assert case); `>` accepted as an '88 mode by the load-file reader
(C10: a corrupted mode character is now replaced by every '94 mode, not by
three of them); a process queue that doubles past a limit that is not 64*2^k
(C04: process bombs filling limits of 63, 64, 65, 100, 129, 1000, 1025).

Between the rounds the statement coverage of gmars reached by the quick-tier
enumerations was measured (`tools/coverage.sh`, results in `/verif/coverage/`);
the blocks never executed were either dead code, command-line-only entry
points, or pointed at small additions (the `||` / `&&` lexemes in C05's
lexicon, an EQU used by two other EQUs, `MaxCycles()` / `CoreSize()` / names and
listings of handles in C13's query battery, a read-recording StateRecorder in
C15).

Seventh round: 17 more (one per property), regression variants: the agents
read the `fix:` commits in the worktree's history (D1-D24 of section 11) and
re-broke what had been repaired in a different way - the same kind of
misbehaviour through another condition, operand, accessor, dialect or reader
(`strings.EqualFold` instead of the ASCII test in the opcode lookup, a
self-referential EQU no longer counted as a cycle, '88 mode checks on the A
operand only, a sign counter per expression instead of per run, block labels
lost when a FOR body holds only inner blocks, a final `END n` without newline
dropped by the assembler, `END -1` accepted by the '94 load-file reader, a
skipping SLT that queues address M, a typed-nil `GetWarrior`, DJN.F without a
report, ...). All 17 were reported at once by the quick tier.

Eighth round: 17 more (one per property) on two themes, performance work
(caches, pools, masks instead of modulo, narrower types, elided reports) and
tidied error handling (errors stored and returned late, `continue` for
`return err`, shared error variables, early `return nil`). 16 were reported at
once. The seventeenth (a package-level cache of formatted listing lines keyed
without the core size: the listing of one simulator depends on which
simulators printed listings before it) was *found* by C16 on every run, but
the orchestrator refused a verdict: the single case does not reproduce in a
fresh process, and candidates that do not reproduce were never reported. The
orchestrator now distinguishes that situation from a flaky harness: when the
case alone does not reproduce, the worker shard that reported it is re-run
twice, and if both runs report the identical violation it is reported as a
deterministic *history-dependent* violation whose replayable witness is the
shard (section 10).

Ninth round: 17 more (one per property) on the theme "two cooperating sites
and state carried between calls": memos and lazily built tables keyed by part
of what they depend on, fast paths in front of the general path, buffers and
queues reused between rounds, values precomputed at construction. 15 were
reported at once. The two misses were both one-entry memos whose collision
needs two *adjacent* uses that differ in exactly one respect: the '88
load-file reader skipping the B-mode validation when the previous line had the
same mnemonic and A-mode (C10: the canonical files never repeated an opcode;
every ordered pair of line forms is now enumerated, section 10), and a
process-wide table of the predefined constants keyed without the minimum
distance (C14: all configurations used together in one process differed in
several fields; configuration neighbourhoods are now walked in one process).
Before the round, reading the property texts for paths no engine drove found
the `-A` option itself: C16 checked `LoadCode()` through the library only; it
now also runs `cmd/gmars -A` with two files per invocation.

Tenth round: 17 more (one per property) on the theme "aliasing,
self-reference and overlap": operands resolving to the same cell, a pointer
cell that is its own target, images that wrap or are as long as the core,
queues whose head meets their tail, labels spelled like predefined names, the
same variable handed in twice. 14 were reported at once. The three misses:
a load-file comment cut at the *last* `;` instead of the first (C09: every
comment of the perturbation set contained a single `;`; trailing and inserted
comments now also contain `;` and syntax-like words); a spawn loop that walks
the ring from head to tail and loads nothing when the warrior is exactly as
long as the core and placed off zero (C12: programs were at most three
instructions long; warriors of length M and M-1 are now rotated through every
shift); a simulator that reuses its private copy when the same `*WarriorData`
is added again (C14: the copy-isolation grid added the caller's data once; the
one variable is now handed to AddWarrior two and three times, to one simulator
and to two, with every mutation in between, against a run that passes an
independent deep copy each time).

Eleventh round: 17 more (one per property) on the theme "hand-over
conventions between components" (signed vs unsigned, reduced vs raw, inclusive
vs exclusive bounds, sentinel values, case, end-of-input tokens, before vs
after a copy). 14 were reported at once. The three misses: a FOR counter
matched without regard to case, so that a label `I` next to the counter `i`
is replaced too (C08: the generated labels never differed from a counter in
case only; one more surface variant renames the outside label, the EQU and the
block label to `I`, `J`, `K`); `AddWarrior` normalising an entry point at or
beyond the code length *in the caller's data* before copying it (C14: the
isolation grid used well-formed data; 256 shapes of caller data - entry points
at and beyond the length, empty code, fields beyond the core, spare capacity -
must now come back untouched); `-F` reduced modulo the core size before the
"0 means random" test (C17: the grid stopped at `-F M-1`; placements M, M+1,
2M, 3M+5, 10.5M are now run).

After these changes all NSEEDS are reported. The table is generated from the last
run of every seed against the current machinery. (Two of the agents also
pointed out defects of the unchanged tree while reading: D20 and D21 of
section 11.)

'''.replace('NSEEDS', str(len(rows))) + '\n'.join(table) + '\n'
pl = json.load(open('/verif/seeded/planned/results.json'))
rows2 = []
for k in sorted(pl, key=lambda x: (pl[x]['property'], x)):
    v = pl[k]
    st = v['status']
    if st == 'reported':
        st = 'reported by %s quick (%s)' % (v['property'], '/'.join(v.get('kinds', [])[:3]))
    rows2.append('| `%s` | %s | %s | %s |' % (k, v['property'], v['what'], st))
body += '''
### Hand-written one-line changes

Besides the independent seeds, a table of one-line changes in the spirit of the
"planned mutants" of section 4 is kept in `tools/planned.py`; each is applied to
/repo, the repository's suite is run (a change the suite already catches is not
interesting and is only listed), the property's quick check is run, and the
change is undone. Results of the last run (`seeded/planned/results.json`):

| change | property | what | result |
|---|---|---|---|
''' + '\n'.join(rows2) + '\n'
open('/verif/DESIGN.md', 'w').write(head + body + tail13)
print(len(rows), 'rows')

#!/bin/sh
# Statement coverage of bobertlo/gmars reached by the quick-tier enumerations
# of the plain-build engines (a vacuity indicator, not a check: a statement the
# enumerations never execute cannot be decided by them). Builds the worker
# with `go build -cover`, runs every engine's quick space in 8 shards, merges
# the counters and writes /verif/coverage/uncovered.txt (blocks never executed)
# and /verif/coverage/summary.txt. The instrumented-build engines (C05/C14
# scheduler exploration) and the CLI (C17) are not included, so cmd-only entry
# points (PresetConfig, NewQuickConfig) show as uncovered here.
set -e
export GOFLAGS=-mod=mod GOPROXY=off GOSUMDB=off GOTOOLCHAIN=local
W=/verif/.work/coverage-$$
mkdir -p $W/data /verif/coverage
trap 'rm -rf $W' EXIT
cd /verif/mc
go build -cover -coverpkg=github.com/bobertlo/gmars,verif/mc/... -o $W/vh ./cmd/vh
run() { # engine props [args]
  eng=$1; props=$2; shift 2
  for i in 0 1 2 3 4 5 6 7; do
    GOCOVERDIR=$W/data GOMAXPROCS=1 $W/vh $eng -props $props -tier quick -shard $i/8 -cap 90 "$@" >/dev/null 2>&1 &
  done
  wait
}
run e1 C01,C15
run e1 C04
run e2 C02; run e2 C12; run e2 C15; run e2 C04
run e3 C13
run e4 C03; run e4 C07; run e4 C08; run e4 C06
run e5 C09; run e5 C10; run e5 C16
run e7 C14 -job iso
run e6 C05 -job free
go tool covdata textfmt -i=$W/data -pkg=github.com/bobertlo/gmars -o $W/cov.txt
go tool cover -func=$W/cov.txt | tail -1 > /verif/coverage/summary.txt
python3 - $W/cov.txt <<'E' > /verif/coverage/uncovered.txt
import re, collections, sys
blocks = collections.defaultdict(int)
for l in open(sys.argv[1]):
    if l.startswith('mode'):
        continue
    m = re.match(r'(.+):(\d+)\.(\d+),(\d+)\.(\d+) (\d+) (\d+)', l)
    f, sl, sc, el, ec, n, c = m.groups()
    blocks[(f.split('/')[-1], int(sl), int(el))] += int(c)
for (f, sl, el), c in sorted(blocks.items()):
    if c == 0:
        src = open('/repo/' + f).read().split('\n')
        print('%s:%d-%d: %s' % (f, sl, el, ' / '.join(x.strip() for x in src[sl - 1:min(el, sl + 2)])[:150]))
E
cat /verif/coverage/summary.txt
wc -l /verif/coverage/uncovered.txt

package e5

import (
	"fmt"
	"strings"

	g "github.com/bobertlo/gmars"

	"verif/mc/hx"
	"verif/mc/ref"
)

// Pert is one layout perturbation of a canonical load file.
type Pert struct {
	Kind string // case gap crlf insert trail nofinalnl
	L    int    // line / boundary
	G    int    // gap
	V    int    // variant
}

func (p Pert) String() string { return fmt.Sprintf("%s(%d,%d,%d)", p.Kind, p.L, p.G, p.V) }
func (p Pert) site() string   { return fmt.Sprintf("%s/%d/%d", p.Kind, p.L, p.G) }

// pertSites lists every single perturbation of the canonical lines.
func pertSites(lines []string) []Pert {
	var out []Pert
	for i, l := range lines {
		out = append(out, Pert{"case", i, 0, 0}, Pert{"case", i, 0, 1})
		ngaps := 3 // directive: start, after word, end
		if strings.Contains(l, ",") {
			ngaps = 7
		}
		for gp := 0; gp < ngaps; gp++ {
			out = append(out, Pert{"gap", i, gp, 0}, Pert{"gap", i, gp, 1})
		}
		if ngaps == 7 {
			out = append(out, Pert{"gap", i, 4, 2}) // blank after the comma removed
		}
		out = append(out, Pert{"trail", i, 0, 0}, Pert{"trail", i, 0, 1}, Pert{"trail", i, 0, 2}, Pert{"trail", i, 0, 3})
	}
	for b := 0; b <= len(lines); b++ {
		for v := 0; v < 9; v++ {
			out = append(out, Pert{"insert", b, 0, v})
		}
	}
	out = append(out, Pert{"crlf", 0, 0, 0}, Pert{"nofinalnl", 0, 0, 0})
	return out
}

// applyPerts renders the lines with the perturbations; ok=false if two
// perturbations share a site.
func applyPerts(lines []string, ps []Pert) (string, bool) {
	seen := map[string]bool{}
	for _, p := range ps {
		if seen[p.site()] {
			return "", false
		}
		seen[p.site()] = true
	}
	find := func(kind string, l, gp int) (int, bool) {
		for _, p := range ps {
			if p.Kind == kind && p.L == l && p.G == gp {
				return p.V, true
			}
		}
		return 0, false
	}
	eol := "\n"
	if _, ok := find("crlf", 0, 0); ok {
		eol = "\r\n"
	}
	var sb strings.Builder
	ins := func(b int) {
		if v, ok := find("insert", b, 0); ok {
			switch v {
			case 0:
				sb.WriteString(eol)
			case 1:
				sb.WriteString("; a comment" + eol)
			case 2:
				sb.WriteString(";name Some Name" + eol)
			case 4:
				sb.WriteString("; " + strings.Repeat("a very long comment line ", 3000) + eol)
			case 5:
				sb.WriteString(";REDCODE-94" + eol + ";NAME Upper" + eol + ";Author Mixed ; with ;assert 0 inside" + eol)
			case 6:
				sb.WriteString(";strategy" + eol + ";strategy x" + eol)
			case 7:
				sb.WriteString(";redcode-94" + eol)
			case 8:
				sb.WriteString("; x ; y ;; ORG 1 ; END" + eol)
			default:
				sb.WriteString("   \t " + eol)
			}
		}
	}
	for i, l := range lines {
		ins(i)
		gp := func(n int, def string) string {
			v, ok := find("gap", i, n)
			if !ok {
				return def
			}
			switch v {
			case 0:
				return def + "  "
			case 1:
				return def + "\t"
			default:
				return ""
			}
		}
		var text string
		f := strings.Fields(strings.ReplaceAll(l, ",", " "))
		if strings.Contains(l, ",") {
			// op amode aval , bmode bval
			text = gp(0, "") + f[0] + gp(1, " ") + f[1] + gp(2, " ") + f[2] + gp(3, "") + "," + gp(4, " ") + f[3] + gp(5, " ") + f[4] + gp(6, "")
		} else {
			text = gp(0, "") + f[0] + gp(1, " ") + f[1] + gp(2, "")
		}
		if v, ok := find("case", i, 0); ok {
			if v == 0 {
				text = strings.ToLower(text)
			} else {
				low := strings.ToLower(text)
				up := []rune(text)
				lo := []rune(low)
				for k := range up {
					if k%2 == 1 {
						up[k] = lo[k]
					}
				}
				text = string(up)
			}
		}
		if v, ok := find("trail", i, 0); ok {
			switch v {
			case 0:
				text += " ; comment"
			case 1:
				text += ";c"
			case 2:
				text += " ; copy; then advance" // a comment that contains the comment character
			default:
				text += ";; mov.i $ 7, $ 7 ; org 2, end" // ... and words that look like syntax
			}
		}
		sb.WriteString(text)
		last := i == len(lines)-1
		_, nofinal := find("nofinalnl", 0, 0)
		_, insAfter := find("insert", len(lines), 0)
		if !(last && nofinal && !insAfter) {
			sb.WriteString(eol)
		}
	}
	if _, nofinal := find("nofinalnl", 0, 0); nofinal {
		// an inserted last line (comment / blank) then is the unterminated one
		if v, ok := find("insert", len(lines), 0); ok {
			switch v {
			case 1:
				sb.WriteString("; a comment")
			case 2:
				sb.WriteString(";name Some Name")
			case 3:
				sb.WriteString("   \t ")
			case 4:
				sb.WriteString("; " + strings.Repeat("a very long comment line ", 3000))
			case 5:
				sb.WriteString(";REDCODE-94" + eol + ";NAME Upper" + eol + ";Author Mixed ; with ;assert 0 inside")
			case 6:
				sb.WriteString(";strategy" + eol + ";strategy x")
			case 7:
				sb.WriteString(";redcode-94")
			case 8:
				sb.WriteString("; x ; y ;; ORG 1 ; END")
			}
		}
	} else {
		ins(len(lines))
	}
	return sb.String(), true
}

func fieldValues(M uint64) []uint64 {
	vs := []uint64{0, 1, M - 1, M / 2, M/2 + 1}
	return vs
}

// alphabet12 is the 12-form alphabet of the multi-instruction warriors.
func alphabet12(legacy bool, M uint64) []g.Instruction {
	mk := func(op g.OpCode, md g.OpMode, am g.AddressMode, a uint64, bm g.AddressMode, b uint64) g.Instruction {
		return g.Instruction{Op: op, OpMode: md, AMode: am, A: g.Address(a % M), BMode: bm, B: g.Address(b % M)}
	}
	if legacy {
		return []g.Instruction{
			mk(g.DAT, g.F, g.IMMEDIATE, 0, g.IMMEDIATE, M-1), mk(g.MOV, g.I, g.DIRECT, 0, g.DIRECT, 1), mk(g.MOV, g.AB, g.IMMEDIATE, 3, g.B_INDIRECT, M/2+1),
			mk(g.ADD, g.AB, g.IMMEDIATE, 4, g.DIRECT, 3), mk(g.SUB, g.F, g.B_DECREMENT, 1, g.DIRECT, 2), mk(g.JMP, g.B, g.DIRECT, M-2, g.DIRECT, 0),
			mk(g.JMZ, g.B, g.B_INDIRECT, 1, g.B_DECREMENT, 2), mk(g.DJN, g.B, g.DIRECT, M-1, g.IMMEDIATE, 5), mk(g.CMP, g.I, g.DIRECT, M/2, g.B_INDIRECT, 1),
			mk(g.SLT, g.AB, g.IMMEDIATE, 9, g.IMMEDIATE, 1), mk(g.SPL, g.B, g.B_INDIRECT, 0, g.IMMEDIATE, 0), mk(g.DAT, g.F, g.B_DECREMENT, 1, g.B_DECREMENT, 1),
		}
	}
	return []g.Instruction{
		mk(g.DAT, g.F, g.IMMEDIATE, 0, g.IMMEDIATE, M-1), mk(g.MOV, g.I, g.DIRECT, 0, g.DIRECT, 1), mk(g.MOV, g.X, g.A_INCREMENT, 3, g.A_DECREMENT, M/2+1),
		mk(g.ADD, g.AB, g.IMMEDIATE, 4, g.DIRECT, 3), mk(g.MUL, g.BA, g.B_DECREMENT, 1, g.A_INDIRECT, 2), mk(g.JMP, g.B, g.DIRECT, M-2, g.DIRECT, 0),
		mk(g.JMN, g.F, g.B_INDIRECT, 1, g.B_INCREMENT, 2), mk(g.DJN, g.A, g.DIRECT, M-1, g.IMMEDIATE, 5), mk(g.SEQ, g.I, g.DIRECT, M/2, g.B_INDIRECT, 1),
		mk(g.SNE, g.X, g.A_INDIRECT, 9, g.IMMEDIATE, 1), mk(g.SPL, g.B, g.B_INDIRECT, 0, g.IMMEDIATE, 0), mk(g.NOP, g.F, g.A_DECREMENT, 1, g.B_DECREMENT, 1),
	}
}

func (c *Ctx) roundTrip(code []g.Instruction, start int, M uint64, legacy bool, how int, ps []Pert, note string) {
	lines := ref.PrintLines(code, start, legacy, M, how)
	text, ok := applyPerts(lines, ps)
	if !ok {
		return
	}
	t := &textCase{M: M, Legacy: legacy, Text: text, Code: hx.CoreStr(code), Start: start, Note: note}
	c.check09(t)
	if ps == nil && len(code) > 1 {
		// "length 1..max": the same warrior under a configuration whose
		// maximum length is exactly its length
		t2 := *t
		t2.MaxLen = uint64(len(code))
		t2.Note = note + ", maximum length == length"
		c.check09(&t2)
	}
}

// RunC09 enumerates warriors, spellings and layout perturbations.
func (c *Ctx) RunC09(tier string) {
	thorough := tier == "thorough"
	rep := c.Rep
	sizes := []uint64{8000}
	if thorough {
		sizes = []uint64{8, 80, 8000, 8192}
	}
	// (a) every legal form as a one-instruction warrior
	for _, legacy := range []bool{false, true} {
		forms := legalForms(legacy)
		for _, M := range sizes {
			vals := fieldValues(M)
			for _, f := range forms {
				if !c.mine() || c.expired() {
					continue
				}
				for ai, a := range vals {
					for bi, b := range vals {
						if !thorough && ai != bi && ai != 0 && bi != 0 {
							continue
						}
						code := []g.Instruction{hx.Mk(f, a, b)}
						for how := 0; how < 3; how++ {
							c.roundTrip(code, 0, M, legacy, how, nil, "one instruction")
						}
					}
				}
				// the file-level perturbations on every form
				code := []g.Instruction{hx.Mk(f, vals[2], vals[4])}
				for _, p := range []Pert{{"crlf", 0, 0, 0}, {"nofinalnl", 0, 0, 0}, {"case", 0, 0, 0}, {"case", 1, 0, 1}} {
					c.roundTrip(code, 0, M, legacy, ref.SpellSigned, []Pert{p}, "one instruction "+p.String())
				}
			}
		}
	}
	rep.Bound = fmt.Sprintf("every instruction form legal in the dialect (7616 / %d) as a one-instruction warrior x field pairs from {0,1,M-1,M/2,M/2+1} x 3 spellings (unsigned, signed, value+M) x M in %v, plus CR-LF / no final newline / case on every form", len(legalForms(true)), sizes)

	// (b) 2..3-instruction warriors over 12 forms with every entry point
	for _, legacy := range []bool{false, true} {
		for _, M := range sizes {
			al := alphabet12(legacy, M)
			for i := range al {
				if !c.mine() || c.expired() {
					continue
				}
				for j := range al {
					for st := 0; st < 2; st++ {
						c.roundTrip([]g.Instruction{al[i], al[j]}, st, M, legacy, ref.SpellSigned, nil, "two instructions")
					}
					if thorough || (i+j)%3 == 0 {
						for k := range al {
							for st := 0; st < 3; st++ {
								c.roundTrip([]g.Instruction{al[i], al[j], al[k]}, st, M, legacy, st, nil, "three instructions")
							}
						}
					}
				}
			}
		}
	}
	rep.Bound += "; all 2-instruction and all (quick: a third of the) 3-instruction warriors over a 12-form alphabet with every entry point, each also under a maximum length equal to its length"

	// (b2) long files: 300 instructions through both readers, 70000 through the loader
	if c.Sh.I == 0 {
		for _, legacy := range []bool{false, true} {
			for _, n := range []int{300, 70000} {
				if n > 300 && !thorough {
					continue
				}
				M := uint64(1 << 20)
				al := alphabet12(legacy, M)
				code := make([]g.Instruction, n)
				for i := range code {
					code[i] = al[(i*5+1)%len(al)]
					code[i].A = g.Address((uint64(i)*104729 + 7) % M)
					code[i].B = g.Address((M - uint64(i) - 1) % M)
				}
				lines := ref.PrintLines(code, n-1, legacy, M, ref.SpellSigned)
				t := &textCase{M: M, Legacy: legacy, Text: strings.Join(lines, "\n") + "\n", Code: hx.CoreStr(code), Start: n - 1, Note: fmt.Sprintf("%d instructions", n), MaxLen: uint64(n)}
				c.check09(t)
			}
		}
		rep.Bound += "; files of 300 (thorough: and 70000) instructions with the entry point on the last one"
	}

	// (b3) buffer boundaries: a comment line pads the text so that the bytes of
	// the canonical lines sweep across offsets 4096, 8192 and 65536 (every
	// alignment of every line end, LF and CR-LF)
	for _, legacy := range []bool{false, true} {
		M := uint64(8000)
		al := alphabet12(legacy, M)
		w := []g.Instruction{al[1], al[3], al[5]}
		lines := ref.PrintLines(w, 2, legacy, M, ref.SpellSigned)
		for _, eol := range []string{"\n", "\r\n"} {
			body := strings.Join(lines, eol) + eol
			for _, B := range []int{4096, 8192, 65536} {
				if B > 8192 && !thorough && eol != "\n" {
					continue
				}
				for pad := B - len(body) - 6; pad <= B+1; pad++ {
					if !c.mine() || c.expired() {
						continue
					}
					text := ";" + strings.Repeat("x", pad-1-len(eol)) + eol + body
					c.check09(&textCase{M: M, Legacy: legacy, Text: text, Code: hx.CoreStr(w), Start: 2, Note: fmt.Sprintf("first instruction line at byte %d", pad)})
					rep.Count("c09:buffer-boundary-alignments")
				}
			}
		}
	}
	rep.Bound += "; a three-instruction file behind a comment line of every length that puts any of its bytes at offset 4096, 8192 or 65536 (LF and CR-LF)"

	rep.Bound += "; every text also through a reader that returns short reads (1, 2, 3, 7, 100 or 4095 bytes per call, rotating)"

	// (c) layout perturbations: every set of <= 2 (quick: <= 1, <= 2 on the first warrior)
	nw := 0
	for _, legacy := range []bool{false, true} {
		M := uint64(8000)
		al := alphabet12(legacy, M)
		warriors := [][]g.Instruction{{al[1], al[3], al[5]}, {al[0]}, {al[2], al[7]}, {al[8], al[9], al[10], al[11]}, {al[4], al[6]}}
		for wi, w := range warriors {
			nw++
			if !c.mine() || c.expired() {
				continue
			}
			start := len(w) - 1
			lines := ref.PrintLines(w, start, legacy, M, ref.SpellSigned)
			sites := pertSites(lines)
			for i, p1 := range sites {
				c.roundTrip(w, start, M, legacy, ref.SpellSigned, []Pert{p1}, p1.String())
				rep.Count("c09:texts-with-1-perturbation")
				if thorough || wi == 0 {
					for j, p2 := range sites[i+1:] {
						c.roundTrip(w, start, M, legacy, ref.SpellSigned, []Pert{p1, p2}, p1.String()+" "+p2.String())
						rep.Count("c09:texts-with-2-perturbations")
						if thorough && (wi == 1 || wi == 2 || wi == 4) {
							for _, p3 := range sites[i+1+j+1:] {
								c.roundTrip(w, start, M, legacy, ref.SpellSigned, []Pert{p1, p2, p3}, p1.String()+" "+p2.String()+" "+p3.String())
								rep.Count("c09:texts-with-3-perturbations")
							}
						}
					}
				}
			}
		}
	}
	rep.Bound += fmt.Sprintf("; %d warriors x every set of <=2 layout perturbations (quick: <=1, <=2 for one warrior per dialect; thorough: also every set of 3 for three of the five warriors per dialect) out of: case of a line, extra blanks / tab at each of 7 gaps, removed blank after the comma, CR-LF, blank / comment / metadata / whitespace-only / 75000-character comment line / comment containing ';' and syntax-like words at every boundary, trailing comment (4 forms, two of them containing ';'), missing final newline", nw)
	c.runSeq09(thorough)
	lines := ref.PrintLines(alphabet12(false, 8000)[1:4], 1, false, 8000, ref.SpellSigned)
	rep.Sample(strings.Join(lines, "\n") + "\n")
}

// Package e5 holds the load-file engines: canonical print / layout
// perturbation round trips through the loader and the assembler (C09),
// corruption enumeration for the loader (C10) and the listing printer (C16).
package e5

import (
	"encoding/json"
	"fmt"
	"io"
	"strings"
	"time"

	g "github.com/bobertlo/gmars"

	"verif/mc/hx"
	"verif/mc/ref"
)

type Ctx struct {
	Rep      *hx.Report
	Sh       hx.Shard
	Deadline time.Time
	WD       *hx.Watchdog
	stop     bool
	unit     int
	// one simulator per configuration for the very large cores of C16
	bigSims map[string]g.Simulator
}

func (c *Ctx) expired() bool {
	if c.stop {
		return true
	}
	if !c.Deadline.IsZero() && time.Now().After(c.Deadline) {
		c.stop = true
		c.Rep.Exhaustive = false
		c.Rep.Note("tier time cap reached; the enumeration was cut short")
	}
	return c.stop
}

func (c *Ctx) mine() bool {
	c.unit++
	return c.Sh.Mine(c.unit)
}

func cfgOf(M uint64, legacy bool) g.SimulatorConfig {
	mode := g.ICWS94
	if legacy {
		mode = g.ICWS88
	}
	l := uint64(100)
	if M < 400 {
		l = M / 2
	}
	return g.SimulatorConfig{Mode: mode, CoreSize: g.Address(M), Processes: 8, Cycles: 100, ReadLimit: g.Address(M), WriteLimit: g.Address(M), Length: g.Address(l), Distance: g.Address(l)}
}

// textCase is the witness format of C09/C10: a text with the warrior it must
// read back as (C09) under a configuration.
type textCase struct {
	M      uint64 `json:"M"`
	Legacy bool   `json:"icws88"`
	Text   string `json:"text"`
	Code   string `json:"code,omitempty"`
	Start  int    `json:"start"`
	Note   string `json:"note,omitempty"`
	MaxLen uint64 `json:"max_length,omitempty"` // configured maximum warrior length (0: the default of cfgOf)
	Chunk  int    `json:"chunk,omitempty"`      // the reader hands out at most this many bytes per Read call (0: everything at once)
}

// chunkReader is an io.Reader that returns short reads.
type chunkReader struct {
	s     string
	pos   int
	chunk int
}

func (r *chunkReader) Read(p []byte) (int, error) {
	if r.pos >= len(r.s) {
		return 0, io.EOF
	}
	n := r.chunk
	if n > len(p) {
		n = len(p)
	}
	if n > len(r.s)-r.pos {
		n = len(r.s) - r.pos
	}
	copy(p, r.s[r.pos:r.pos+n])
	r.pos += n
	return n, nil
}

func (t *textCase) reader() io.Reader {
	if t.Chunk > 0 {
		return &chunkReader{s: t.Text, chunk: t.Chunk}
	}
	return strings.NewReader(t.Text)
}

func (t *textCase) cfg() g.SimulatorConfig {
	c := cfgOf(t.M, t.Legacy)
	if t.MaxLen > 0 {
		c.Length = g.Address(t.MaxLen)
		if uint64(c.Distance)+t.MaxLen > t.M {
			c.Distance = 0
		}
	}
	return c
}

func (t *textCase) witness() string {
	b, _ := json.Marshal(t)
	return string(b)
}

func (c *Ctx) load(prop string, t *textCase) (w g.WarriorData, err error, pan string) {
	c.WD.Begin(prop, "loader-does-not-return", t.witness)
	defer c.WD.End()
	defer func() {
		if p := recover(); p != nil {
			pan = fmt.Sprint(p)
		}
	}()
	c.Rep.Transitions++
	w, err = g.ParseLoadFile(t.reader(), t.cfg())
	return
}

func (c *Ctx) compile(prop string, t *textCase) (w g.WarriorData, err error, pan string) {
	c.WD.Begin(prop, "assembler-does-not-return", t.witness)
	defer c.WD.End()
	defer func() {
		if p := recover(); p != nil {
			pan = fmt.Sprint(p)
		}
	}()
	c.Rep.Transitions++
	w, err = g.CompileWarrior(t.reader(), t.cfg())
	return
}

// check09: both readers must reproduce the warrior.
func (c *Ctx) check09(t *textCase) {
	c.check09once(t)
	if t.Chunk == 0 {
		// the same text through a reader that returns short reads (the size rotates)
		t2 := *t
		t2.Chunk = []int{1, 2, 3, 7, 100, 4095}[c.Rep.Counters["c09:texts-through-short-reads"]%6]
		c.check09once(&t2)
		c.Rep.Count("c09:texts-through-short-reads")
	}
}

func (c *Ctx) check09once(t *textCase) {
	rep := c.Rep
	rep.States++
	fail := func(kind, detail string) {
		if rep.Hit("C09", kind) {
			rep.Add("C09", kind, t.witness(), detail)
		}
	}
	w, err, pan := c.load("C09", t)
	rep.Traces++
	switch {
	case pan != "":
		fail("loader-panic", pan)
	case err != nil:
		fail("loader-rejected", err.Error())
	case hx.CoreStr(w.Code) != t.Code || w.Start != t.Start:
		fail("loader-differs", fmt.Sprintf("read %s start %d", hx.CoreStr(w.Code), w.Start))
	}
	w, err, pan = c.compile("C09", t)
	rep.Traces++
	switch {
	case pan != "":
		fail("assembler-panic", pan)
	case err != nil:
		fail("assembler-rejected", err.Error())
	case hx.CoreStr(w.Code) != t.Code || w.Start != t.Start:
		fail("assembler-differs", fmt.Sprintf("read %s start %d", hx.CoreStr(w.Code), w.Start))
	}
}

// legalForms lists the instruction forms legal in the dialect.
func legalForms(legacy bool) []int {
	var out []int
	for f := 0; f < hx.NForms; f++ {
		if legacy {
			op, md, am, bm := hx.Form(f)
			m88, ok := ref.Legal88(op, am, bm)
			if !ok || m88 != md {
				continue
			}
		}
		out = append(out, f)
	}
	return out
}

// Run dispatches on the property.
func (c *Ctx) Run(prop, tier string) {
	switch prop {
	case "C09":
		c.RunC09(tier)
	case "C10":
		c.RunC10(tier)
	case "C16":
		c.RunC16(tier)
	default:
		c.Rep.Note("engine e5 has no space for " + prop)
	}
}

func (c *Ctx) Replay(prop, wit string) error {
	var t textCase
	if err := json.Unmarshal([]byte(wit), &t); err != nil {
		return err
	}
	switch prop {
	case "C09":
		c.check09(&t)
	case "C10":
		c.check10(&t)
	case "C16":
		code, err := hx.ParseCore(t.Code)
		if err != nil {
			return err
		}
		c.check16(code, t.Start, t.M, t.Legacy)
	default:
		return fmt.Errorf("no replay for %s", prop)
	}
	return nil
}

package e5

import (
	"fmt"
	"strings"

	g "github.com/bobertlo/gmars"

	"verif/mc/hx"
	"verif/mc/ref"
)

// check10: the loader returns (no panic), with either an error or a
// well-formed warrior whose length equals the number of instruction-candidate
// lines before the end marker.
func (c *Ctx) check10(t *textCase) {
	rep := c.Rep
	rep.States++
	fail := func(kind, detail string) {
		if rep.Hit("C10", kind) {
			rep.Add("C10", kind, t.witness(), detail)
		}
	}
	w, err, pan := c.load("C10", t)
	rep.Traces++
	if pan != "" {
		fail("panic", pan)
		return
	}
	if err != nil {
		rep.Count("c10:rejected")
		return
	}
	rep.Count("c10:accepted")
	M := t.M
	if len(w.Code) == 0 {
		if w.Start != 0 {
			fail("entry-point", fmt.Sprintf("empty warrior with entry point %d", w.Start))
		}
	} else if w.Start < 0 || w.Start >= len(w.Code) {
		fail("entry-point", fmt.Sprintf("entry point %d outside the %d instructions", w.Start, len(w.Code)))
	}
	for i, x := range w.Code {
		if uint64(x.A) >= M || uint64(x.B) >= M {
			fail("field-range", fmt.Sprintf("instruction %d = %s", i, hx.InsStr(x)))
		}
		if x.Op > g.NOP || x.OpMode > g.I || x.AMode > g.B_INCREMENT || x.BMode > g.B_INCREMENT {
			fail("undefined-enum-value", fmt.Sprintf("instruction %d = %+v", i, x))
		}
		if t.Legacy {
			md, ok := ref.Legal88(x.Op, x.AMode, x.BMode)
			if !ok || md != x.OpMode {
				fail("illegal-88-instruction", fmt.Sprintf("instruction %d = %s", i, hx.InsStr(x)))
			}
		}
	}
	n, unspecified := ref.CountCandidates(t.Text, t.Legacy)
	if !unspecified && len(w.Code) != n {
		fail("line-skipped-silently", fmt.Sprintf("%d instruction-candidate lines before the end marker, %d instructions returned: %s", n, len(w.Code), hx.CoreStr(w.Code)))
	}
}

// canonical files of C10.
func canonicalFiles(legacy bool, M uint64) [][]string {
	al := alphabet12(legacy, M)
	sets := [][]g.Instruction{
		{al[0]}, {al[1]}, {al[3], al[5]}, {al[2], al[4], al[6]}, {al[7], al[8], al[9], al[10]},
		{al[11]}, {al[5], al[0]}, {al[9], al[1], al[3]}, {al[6], al[7]}, {al[10], al[2], al[11], al[4]},
	}
	var out [][]string
	for i, s := range sets {
		start := i % len(s)
		lines := ref.PrintLines(s, start, legacy, M, ref.SpellSigned)
		if i%2 == 1 {
			// without directive
			if legacy {
				lines = lines[:len(lines)-1]
			} else {
				lines = lines[1:]
			}
		}
		if i%3 == 0 {
			// with the metadata header load files usually carry
			hdr := []string{";redcode", ";name Some Name", ";author A. U. Thor", ";strategy one line", ";strategy", ";assert 1"}
			lines = append(hdr, lines...)
			if i%2 == 0 {
				lines = append(lines, ";strategy")
			}
		}
		out = append(out, lines)
	}
	return out
}

// Corr is one corruption of a canonical file, applied to the line list.
type Corr struct {
	Kind string
	L    int // line (or boundary)
	F    int // field index within the line
	V    int // variant
}

func (k Corr) String() string { return fmt.Sprintf("%s(%d,%d,%d)", k.Kind, k.L, k.F, k.V) }

func numbers(M uint64) []string {
	return []string{"-1", fmt.Sprintf("-%d", M), fmt.Sprint(M), fmt.Sprint(M + 1), "2147483647", "2147483648", "9223372036854775808", "99999999999999999999", "x", "", "1.5", "+3", "0x10", "-",
		fmt.Sprintf("-%d", M+2), fmt.Sprintf("-%d", 2*M+1), "-2147483648", "-9223372036854775808", fmt.Sprint(3*M - 1),
		"3-", "--3", "1e3", "0x1F", "\u0663", "1_000", "07", " 5"}
}

// modeAlternatives replace a mode character: every mode of the '94 dialect
// (four of them are illegal under ICWS'88) and three that are no modes.
var modeAlternatives = []string{"!", "*", "}", "", "$$", "{", ">", "<", "@", "#", "$"}

func corrSites(lines []string, legacy bool, M uint64) []Corr {
	var out []Corr
	nn := len(numbers(M))
	for i, l := range lines {
		f := strings.Fields(strings.ReplaceAll(l, ",", " , "))
		for fi := range f {
			out = append(out, Corr{"delete", i, fi, 0}, Corr{"duplicate", i, fi, 0})
			if fi+1 < len(f) {
				out = append(out, Corr{"transpose", i, fi, 0})
			}
			isNum := f[fi][0] == '-' || (f[fi][0] >= '0' && f[fi][0] <= '9')
			if isNum {
				for v := 0; v < nn; v++ {
					out = append(out, Corr{"number", i, fi, v})
				}
			}
			if fi == 0 {
				for v := 0; v < 5; v++ {
					out = append(out, Corr{"mnemonic", i, fi, v})
				}
			}
			if len(f[fi]) == 1 && strings.Contains("#$@<>*{}", f[fi]) {
				for v := 0; v < len(modeAlternatives); v++ {
					out = append(out, Corr{"mode", i, fi, v})
				}
			}
		}
	}
	for b := 0; b <= len(lines); b++ {
		for v := 0; v < 22; v++ {
			out = append(out, Corr{"directive", b, 0, v})
		}
	}
	return out
}

func applyCorr(lines []string, ks []Corr, legacy bool, M uint64) (string, bool) {
	ls := append([]string{}, lines...)
	nlen := 0
	for _, l := range lines {
		if cl, _ := ref.ClassifyLine(l); cl == ref.LineCandidate {
			nlen++
		}
	}
	// apply field-level corruptions first (they keep the line count), then insertions from the back
	for _, k := range ks {
		if k.Kind == "directive" {
			continue
		}
		f := strings.Fields(strings.ReplaceAll(ls[k.L], ",", " , "))
		if k.F >= len(f) {
			return "", false
		}
		switch k.Kind {
		case "delete":
			f = append(f[:k.F:k.F], f[k.F+1:]...)
		case "duplicate":
			f = append(f[:k.F+1:k.F+1], f[k.F:]...)
		case "transpose":
			if k.F+1 >= len(f) {
				return "", false
			}
			f[k.F], f[k.F+1] = f[k.F+1], f[k.F]
		case "number":
			f[k.F] = numbers(M)[k.V]
		case "mnemonic":
			alt := []string{"xyz", "mov.q", "mul.ab", "mov", "nop.f"}
			if legacy {
				alt = []string{"xyz", "mov.i", "mul", "seq", "nop"}
			}
			f[k.F] = alt[k.V]
		case "mode":
			f[k.F] = modeAlternatives[k.V]
		}
		ls[k.L] = strings.ReplaceAll(strings.Join(f, " "), " , ", ", ")
	}
	var ins []Corr
	for _, k := range ks {
		if k.Kind == "directive" {
			ins = append(ins, k)
		}
	}
	if len(ins) == 2 && ins[0].L < ins[1].L {
		ins[0], ins[1] = ins[1], ins[0]
	}
	for _, k := range ins {
		words := []string{"ORG", "END"}
		args := []string{"-1", "0", fmt.Sprint(nlen - 1), fmt.Sprint(nlen), fmt.Sprint(nlen + 1)}
		var d string
		switch {
		case k.V < 5:
			d = words[0] + " " + args[k.V]
		case k.V < 10:
			d = words[1] + " " + args[k.V-5]
		case k.V == 10:
			d = "END"
		case k.V == 11:
			d = "ORG"
		case k.V == 12:
			d = "ORG 0 1"
		case k.V == 14:
			d = "; " + strings.Repeat("x", 70000) // a comment line longer than common line buffers
		case k.V == 15:
			d = ";redcode-94"
		case k.V == 16:
			d = "ORG 1 2 3 4" // five fields, the first a directive
		case k.V == 17:
			d = "END 1, 2, 3 4"
		case k.V == 18:
			d = "oRg 0"
		case k.V == 19:
			d = "End"
		case k.V == 20:
			d = "ORG 0x0"
		case k.V == 21:
			d = "END 0.0"
		default:
			d = "END 0 0"
		}
		ls = append(ls[:k.L:k.L], append([]string{d}, ls[k.L:]...)...)
	}
	return strings.Join(ls, "\n") + "\n", true
}

// RunC10 enumerates corruptions.
func (c *Ctx) RunC10(tier string) {
	thorough := tier == "thorough"
	rep := c.Rep
	sizes := []uint64{8000}
	if thorough {
		sizes = []uint64{8, 8000, 8192}
	}
	for _, legacy := range []bool{false, true} {
		for _, M := range sizes {
			files := canonicalFiles(legacy, M)
			for fi, lines := range files {
				base := strings.Join(lines, "\n") + "\n"
				if c.Sh.Mine(fi) {
					// the uncorrupted file, and truncation at every byte
					c.check10(&textCase{M: M, Legacy: legacy, Text: base, Note: "canonical"})
					for cut := 0; cut < len(base); cut++ {
						c.check10(&textCase{M: M, Legacy: legacy, Text: base[:cut], Note: fmt.Sprintf("truncated at byte %d", cut)})
						rep.Count("c10:truncations")
					}
				}
				sites := corrSites(lines, legacy, M)
				for i, k1 := range sites {
					if !c.mine() || c.expired() {
						continue
					}
					if text, ok := applyCorr(lines, []Corr{k1}, legacy, M); ok {
						c.check10(&textCase{M: M, Legacy: legacy, Text: text, Note: k1.String()})
						rep.Count("c10:single-corruptions")
						// single corruption plus a missing final newline
						c.check10(&textCase{M: M, Legacy: legacy, Text: strings.TrimSuffix(text, "\n"), Note: k1.String() + " no final newline"})
						if thorough && M == 8000 {
							for cut := 1; cut < len(text)-1; cut++ {
								c.check10(&textCase{M: M, Legacy: legacy, Text: text[:cut], Note: fmt.Sprintf("%s truncated at byte %d", k1.String(), cut)})
							}
						}
					}
					if thorough || fi < 3 {
						for _, k2 := range sites[i+1:] {
							if k1.Kind != "directive" && k2.Kind != "directive" && k1.L == k2.L {
								continue // two field corruptions of one line shift each other's indices
							}
							if text, ok := applyCorr(lines, []Corr{k1, k2}, legacy, M); ok {
								c.check10(&textCase{M: M, Legacy: legacy, Text: text, Note: k1.String() + " " + k2.String()})
								rep.Count("c10:double-corruptions")
							}
						}
					}
				}
			}
		}
	}
	rep.Bound = fmt.Sprintf("10 canonical files per dialect x M in %v: truncation at every byte; every single corruption (delete / duplicate / transpose a field, 27 replacement numbers, 5 bad mnemonics, 11 replacement modes (every '94 mode and three non-modes), 22 insertions (directives in every form incl. five-field, mixed-case, hexadecimal and fractional ones, a 70000-character comment, a ;redcode line) at every line boundary), also without the final newline; every pair of corruptions (quick: for the first 3 files); (thorough) every single corruption truncated at every byte", sizes)
	// very long lines: a comment line (and an instruction line padded with blanks)
	// of 2^k-1, 2^k, 2^k+1 bytes for k in 10..22, followed by valid lines and by
	// a line with an unknown mnemonic: nothing after the long line may be lost
	unit := 0
	for _, legacy := range []bool{false, true} {
		lines := canonicalFiles(legacy, 8000)[2]
		bad := "XYZ.F $ 0, $ 0"
		if legacy {
			bad = "XYZ $ 0, $ 0"
		}
		for k := 10; k <= 22; k++ {
			for d := -1; d <= 1; d++ {
				unit++
				if !c.Sh.Mine(unit) || c.expired() {
					continue
				}
				L := (1 << k) + d
				if k > 20 && !thorough && d != 0 {
					continue
				}
				long := ";" + strings.Repeat("x", L-1)
				padded := lines[len(lines)-2] + strings.Repeat(" ", L-len(lines[len(lines)-2]))
				head := strings.Join(lines[:1], "\n") + "\n"
				rest := strings.Join(lines[1:], "\n") + "\n"
				for _, mid := range []string{long, padded} {
					c.check10(&textCase{M: 8000, Legacy: legacy, Text: head + mid + "\n" + rest, Note: fmt.Sprintf("a line of %d bytes, valid lines after it", L)})
					c.check10(&textCase{M: 8000, Legacy: legacy, Text: head + mid + "\n" + bad + "\n" + rest, Note: fmt.Sprintf("a line of %d bytes, an unknown mnemonic after it", L)})
					rep.Count("c10:very-long-lines")
				}
			}
		}
	}
	rep.Bound += "; a comment line and a blank-padded instruction line of 2^k-1, 2^k, 2^k+1 bytes for k in 10..22 (quick: 2^21 and 2^22 only exactly) followed by valid lines and by a line with an unknown mnemonic"
	c.runSeq10(thorough)
	rep.Sample(strings.Join(canonicalFiles(true, 8000)[4], "\n") + "\n")
}

package e5

// Line-sequence spaces: what a reader or the assembler keeps from one line to
// the next (a remembered mnemonic, mode or modifier) only shows when two
// particular lines follow one another, so every ordered pair of line forms is
// enumerated - legal and illegal ones for C10, legal ones for C09.

import (
	"fmt"
	"strings"

	g "github.com/bobertlo/gmars"

	"verif/mc/hx"
	"verif/mc/ref"
)

var modes88 = []g.AddressMode{g.IMMEDIATE, g.DIRECT, g.B_INDIRECT, g.B_DECREMENT}
var modesAll = []g.AddressMode{g.IMMEDIATE, g.DIRECT, g.B_INDIRECT, g.B_DECREMENT, g.A_INDIRECT, g.B_INCREMENT, g.A_DECREMENT, g.A_INCREMENT}

// lineForm is one load-file instruction line, legal or not.
type lineForm struct {
	op     g.OpCode
	am, bm g.AddressMode
}

func (f lineForm) text88(a, b int) string {
	return fmt.Sprintf("%s %s %d, %s %d", f.op, f.am, a, f.bm, b)
}

// runSeq10: ICWS'88 files of two and three instruction lines over every
// opcode x A-mode x B-mode, legal or not: an accepted file holds only legal
// '88 instructions and one instruction per line (check10).
func (c *Ctx) runSeq10(thorough bool) {
	rep := c.Rep
	ms := modes88
	if thorough {
		ms = modesAll
	}
	var forms []lineForm
	for op := g.DAT; op <= g.NOP; op++ {
		for _, am := range ms {
			for _, bm := range ms {
				forms = append(forms, lineForm{op, am, bm})
			}
		}
	}
	const M = 8000
	for i, f1 := range forms {
		if !c.mine() || c.expired() {
			continue
		}
		for j, f2 := range forms {
			text := f1.text88(1, 2) + "\n" + f2.text88(-1, 3) + "\n"
			if (i+j)%2 == 0 {
				text += "END 0\n"
			}
			c.check10(&textCase{M: M, Legacy: true, Text: text, Note: "two-line sequence"})
			rep.Count("c10:two-line-sequences")
		}
	}
	// three lines: a line between two lines of the same opcode, over the '88
	// opcodes that have both legal and illegal mode pairs
	var small []lineForm
	for _, op := range []g.OpCode{g.DAT, g.MOV, g.ADD, g.JMP, g.SLT} {
		for _, am := range modes88 {
			for _, bm := range modes88 {
				small = append(small, lineForm{op, am, bm})
			}
		}
	}
	for _, f1 := range small {
		if !c.mine() || c.expired() {
			continue
		}
		for _, f2 := range small {
			if !thorough && f2.op != f1.op && f2.am != f1.am {
				continue
			}
			for _, f3 := range small {
				if f3.op != f1.op {
					continue
				}
				text := f1.text88(1, 2) + "\n" + f2.text88(0, 0) + "\n" + f3.text88(3, 1) + "\nEND 1\n"
				c.check10(&textCase{M: M, Legacy: true, Text: text, Note: "three-line sequence"})
				rep.Count("c10:three-line-sequences")
			}
		}
	}
	rep.Bound += fmt.Sprintf("; ICWS'88 files of two instruction lines over every ordered pair of (17 opcodes x %d A-modes x %d B-modes) line forms, legal or not, and of three lines (a line between two lines of the same opcode; DAT/MOV/ADD/JMP/SLT x 16 mode pairs%s)", len(ms), len(ms), map[bool]string{true: "", false: ", the middle line sharing the opcode or the A-mode"}[thorough])
}

// runSeq09: every ordered pair of legal instructions that share an opcode or
// a modifier (what a remembered previous line could confuse), as two-line
// warriors through the loader and the assembler.
func (c *Ctx) runSeq09(thorough bool) {
	rep := c.Rep
	const M = 8000
	// ICWS'88: every ordered pair of legal forms
	var f88 []int
	for _, f := range legalForms(true) {
		f88 = append(f88, f)
	}
	for i, a := range f88 {
		if !c.mine() || c.expired() {
			continue
		}
		for j, b := range f88 {
			code := []g.Instruction{hx.Mk(a, 1, 2), hx.Mk(b, M-1, 3)}
			c.roundTrip(code, (i+j)%2, M, true, ref.SpellSigned, nil, "two-line sequence")
			rep.Count("c09:two-line-sequences")
		}
	}
	// ICWS'94: pairs with the same opcode (all modifiers, 4x4 modes; thorough: 8x8 for the second line)
	ms := modes88
	for op := g.DAT; op <= g.NOP; op++ {
		var fs []g.Instruction
		for md := g.F; md <= g.I; md++ {
			for _, am := range ms {
				for _, bm := range ms {
					fs = append(fs, g.Instruction{Op: op, OpMode: md, AMode: am, A: 1, BMode: bm, B: 2})
				}
			}
		}
		for i, a := range fs {
			if !c.mine() || c.expired() {
				continue
			}
			for j, b := range fs {
				if !thorough && (i+j)%3 != 0 && a.OpMode == b.OpMode && a.AMode != b.AMode && a.BMode != b.BMode {
					continue
				}
				b2 := b
				b2.A, b2.B = M-1, 3
				if thorough {
					b2.AMode = modesAll[(int(b.AMode)+i)%8]
				}
				c.roundTrip([]g.Instruction{a, b2}, (i+j)%2, M, false, ref.SpellSigned, nil, "two-line sequence")
				rep.Count("c09:two-line-sequences")
			}
		}
	}
	// ICWS'94: pairs with different opcodes and the same modifier and modes
	for op1 := g.DAT; op1 <= g.NOP; op1++ {
		if !c.mine() || c.expired() {
			continue
		}
		for op2 := g.DAT; op2 <= g.NOP; op2++ {
			for md := g.F; md <= g.I; md++ {
				for k, am := range modesAll {
					bm := modesAll[(k*3+int(md))%8]
					a := g.Instruction{Op: op1, OpMode: md, AMode: am, A: 1, BMode: bm, B: 2}
					b := g.Instruction{Op: op2, OpMode: g.OpMode((int(md) + k) % 7), AMode: bm, A: M - 1, BMode: am, B: 3}
					c.roundTrip([]g.Instruction{a, b}, k%2, M, false, ref.SpellSigned, nil, "two-line sequence")
					rep.Count("c09:two-line-sequences")
				}
			}
		}
	}
	rep.Bound += "; two-line warriors: every ordered pair of legal ICWS'88 forms; ICWS'94 pairs with the same opcode over all modifiers x 4x4 modes" + map[bool]string{true: " (second line over all 8 A-modes)", false: " (quick: a third of the pairs that differ in both modes only)"}[thorough] + ", and every ordered pair of opcodes over all modifiers and 8 mode pairs"
	_ = strings.Join
}

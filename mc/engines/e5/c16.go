package e5

import (
	"fmt"

	g "github.com/bobertlo/gmars"

	"verif/mc/hx"
	"verif/mc/ref"
)

// check16: read_listing(LoadCode(w)) == w.
func (c *Ctx) check16(code []g.Instruction, start int, M uint64, legacy bool) {
	c.check16m(code, start, M, legacy, false)
	if !legacy && (start+len(code))%2 == 0 {
		c.check16m(code, start, M, legacy, true)
	}
}

func (c *Ctx) check16m(code []g.Instruction, start int, M uint64, legacy bool, nop94 bool) {
	rep := c.Rep
	rep.States++
	t := &textCase{M: M, Legacy: legacy, Code: hx.CoreStr(code), Start: start}
	if nop94 {
		t.Note = "mode NOP94"
	}
	fail := func(kind, detail string) {
		if rep.Hit("C16", kind) {
			rep.Add("C16", kind, t.witness(), detail)
		}
	}
	var listing string
	var pan string
	func() {
		defer func() {
			if p := recover(); p != nil {
				pan = fmt.Sprint(p)
			}
		}()
		cfg := cfgOf(M, legacy)
		if !legacy && nop94 {
			cfg.Mode = g.NOP94 // the third mode value: a '94 dialect, listed like ICWS94
		}
		var sim g.Simulator
		var err error
		key := fmt.Sprint(M, legacy, nop94)
		if M > 1<<22 {
			// very large cores: one simulator serves all warriors of the configuration
			sim = c.bigSims[key]
		}
		if sim == nil {
			sim, err = g.NewSimulator(cfg)
			if err != nil {
				pan = "config rejected: " + err.Error()
				return
			}
			if M > 1<<22 {
				if c.bigSims == nil {
					c.bigSims = map[string]g.Simulator{}
				}
				c.bigSims[key] = sim
			}
		}
		w, err := sim.AddWarrior(&g.WarriorData{Code: code, Start: start})
		if err != nil {
			pan = "AddWarrior: " + err.Error()
			return
		}
		rep.Transitions++
		listing = w.LoadCode()
	}()
	if pan != "" {
		fail("panic", pan)
		return
	}
	rep.Traces++
	rc, rs, err := ref.ReadListing(listing, M, legacy)
	if err != nil {
		fail("unreadable-listing", fmt.Sprintf("%v; listing:\n%s", err, listing))
		return
	}
	if hx.CoreStr(rc) != hx.CoreStr(code) {
		fail("listing-denotes-other-code", fmt.Sprintf("listing reads as %s; listing:\n%s", hx.CoreStr(rc), listing))
		return
	}
	if rs != start {
		fail("listing-denotes-other-entry-point", fmt.Sprintf("listing reads as entry point %d; listing:\n%s", rs, listing))
	}
}

// RunC16 enumerates warriors for the listing printer.
func (c *Ctx) RunC16(tier string) {
	thorough := tier == "thorough"
	rep := c.Rep
	small := []uint64{3, 4, 5, 6, 7, 8, 9, 10, 11, 12, 13, 14, 15, 16}
	if !thorough {
		small = []uint64{4, 7, 8}
	}
	for _, legacy := range []bool{false, true} {
		forms := legalForms(legacy)
		for _, M := range small {
			for _, f := range forms {
				if !c.mine() || c.expired() {
					continue
				}
				for a := uint64(0); a < M; a++ {
					for b := uint64(0); b < M; b++ {
						c.check16([]g.Instruction{hx.Mk(f, a, b)}, 0, M, legacy)
					}
				}
			}
		}
		for _, M := range []uint64{80, 8000, 8192} {
			vals := fieldValues(M)
			// values at which the printed width changes, positive and negative
			wide := []uint64{9, 10, 99 % M, 100 % M, 999 % M, 1000 % M, M - 9, M - 10, (M - 99%M) % M, (M - 100%M) % M, (M - 999%M) % M, (M - 1000%M) % M}
			for _, f := range forms {
				if !c.mine() || c.expired() {
					continue
				}
				for _, a := range vals {
					for _, b := range vals {
						c.check16([]g.Instruction{hx.Mk(f, a, b)}, 0, M, legacy)
					}
					for _, b := range wide {
						c.check16([]g.Instruction{hx.Mk(f, a, b)}, 0, M, legacy)
						c.check16([]g.Instruction{hx.Mk(f, b, a)}, 0, M, legacy)
					}
				}
				for i, a := range wide {
					c.check16([]g.Instruction{hx.Mk(f, a, wide[(i+5)%len(wide)])}, 0, M, legacy)
				}
			}
			al := alphabet12(legacy, M)
			for i := range al {
				if !c.mine() {
					continue
				}
				for j := range al {
					for st := 0; st < 2; st++ {
						c.check16([]g.Instruction{al[i], al[j]}, st, M, legacy)
					}
					for k := range al {
						for st := 0; st < 3; st++ {
							c.check16([]g.Instruction{al[i], al[j], al[k]}, st, M, legacy)
						}
					}
				}
			}
		}
	}
	// long warriors (two- and three-digit line counts) and cores whose fields need six and seven digits
	for _, legacy := range []bool{false, true} {
		if !c.mine() {
			continue
		}
		for _, M := range []uint64{8000, 100003, 1000003} {
			al := alphabet12(legacy, M)
			for _, n := range []int{12, 120} {
				code := make([]g.Instruction, n)
				for i := range code {
					code[i] = al[(i*7+3)%len(al)]
					code[i].A = g.Address((uint64(i)*7919 + M/2) % M)
					code[i].B = g.Address((M - 1 - uint64(i)*31) % M)
				}
				for _, st := range []int{0, 9, 10, n - 1} {
					c.check16(code, st, M, legacy)
				}
			}
		}
	}
	// a core above 2^26 cells: one- and two-line warriors over fields around the powers of two
	if c.Sh.I == 2%c.Sh.N {
		M := uint64(1<<26 + 3)
		fv := []uint64{0, 1, 1 << 24, 1<<25 - 1, 1 << 25, 1<<25 + 1, M / 2, M/2 + 1, M - 1}
		for _, legacy := range []bool{false, true} {
			var lines []g.Instruction
			for _, a := range fv {
				for _, b := range fv {
					lines = append(lines, g.Instruction{Op: g.MOV, OpMode: g.I, AMode: g.DIRECT, A: g.Address(a), BMode: g.B_INDIRECT, B: g.Address(b)})
				}
			}
			for i, l1 := range lines {
				c.check16([]g.Instruction{l1}, 0, M, legacy)
				for j, l2 := range lines {
					if thorough || (i+j)%3 == 0 {
						c.check16([]g.Instruction{l1, l2}, j%2, M, legacy)
					}
				}
			}
			rep.Count("c16:cores-above-2^26")
		}
		c.bigSims = nil
	}
	rep.Bound = fmt.Sprintf("a core of 2^26+3 cells: every one-line and (quick: a third of) every two-line warrior over MOV.I $a @b with a, b in {0, 1, 2^24, 2^25-1, 2^25, 2^25+1, M/2, M/2+1, M-1}; per dialect (ICWS88, ICWS94, and NOP94 for half of the '94 warriors): every legal instruction form x every field pair for M in %v; boundary fields {0,1,M/2,M/2+1,M-1} for M in {80,8000,8192}, each also paired with the values at which the printed width changes (+-9, +-10, +-99, +-100, +-999, +-1000); all 2- and 3-instruction warriors over a 12-form alphabet with every entry point; warriors of 12 and 120 instructions under M in {8000, 100003, 1000003}", small)
	sim, _ := g.NewSimulator(cfgOf(8000, false))
	w, _ := sim.AddWarrior(&g.WarriorData{Code: alphabet12(false, 8000)[1:4], Start: 1})
	rep.Sample(w.LoadCode())
}

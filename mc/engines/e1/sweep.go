package e1

import (
	"fmt"

	g "github.com/bobertlo/gmars"

	"verif/mc/hx"
	"verif/mc/ref"
)

// The core-size sweep (S5). The other spaces fix a handful of core sizes and
// vary everything else; this one varies the core size itself: for every core
// size of a dense list (thorough: every size from 3 to 70001) a fixed battery
// of probe steps whose pointer sums, products and folds reach the extremes of
// the size (fields M-1, M-2, M/2, M/2+1; indirection through cells that hold
// the largest fields; limits (M,M) and (M/2+1, M/2-1) or thereabouts).
//
// One simulator per (size, limit pair) serves all probes: every probe is a
// three-cell warrior (the cell before the instruction, the instruction, the
// cell after it) loaded at offset M-1 after a Reset, so the executed
// instruction sits at address 0 and its neighbours wrap around the core end.
// After the cycle the whole core is read back: the cells the reference step
// touched must equal the reference, every other cell must be empty.

type probe struct {
	before, ins, after g.Instruction
}

func sweepProbes(M uint64) []probe {
	D, I, AI, BI := g.DIRECT, g.IMMEDIATE, g.A_INDIRECT, g.B_INDIRECT
	AD, AP, BD, BP := g.A_DECREMENT, g.A_INCREMENT, g.B_DECREMENT, g.B_INCREMENT
	mk := func(op g.OpCode, md g.OpMode, am g.AddressMode, a uint64, bm g.AddressMode, b uint64) g.Instruction {
		return g.Instruction{Op: op, OpMode: md, AMode: am, A: g.Address(a % M), BMode: bm, B: g.Address(b % M)}
	}
	h := M / 2
	forms := []g.Instruction{
		mk(g.JMP, g.B, BI, M-1, D, 0),
		mk(g.JMP, g.B, AI, M-1, D, 0),
		mk(g.MOV, g.I, BD, M-1, BP, 1),
		mk(g.MOV, g.I, AD, M-1, AP, 1),
		mk(g.ADD, g.F, BI, M-1, AI, 1),
		mk(g.SPL, g.B, BP, M-1, BD, 1),
		mk(g.DJN, g.F, D, M-1, BI, 1),
		mk(g.SEQ, g.X, AI, M-1, BI, M-1),
		mk(g.MUL, g.AB, I, M-1, D, M-1),
		mk(g.SUB, g.BA, D, 1, D, M-1),
		mk(g.DIV, g.A, I, M-1, D, 1),
		mk(g.MOD, g.B, D, M-1, D, 1),
		mk(g.MOV, g.I, D, h, D, h+1),
		mk(g.JMZ, g.F, D, h+1, BI, M-1),
		mk(g.SLT, g.BA, D, M-1, D, 1),
		mk(g.MOV, g.X, AP, 1, AD, M-1),
	}
	nbs := [][2]g.Instruction{
		{mk(g.DAT, g.F, D, M-1, D, M-1), mk(g.DAT, g.F, D, M-1, D, M-2)},
		{mk(g.DAT, g.F, D, h+1, D, h), mk(g.DAT, g.F, D, 1, D, M-1)},
		{mk(g.DAT, g.F, D, M-2, D, h+1), mk(g.DAT, g.F, D, h, D, 2)},
	}
	var out []probe
	for _, f := range forms {
		for _, nb := range nbs {
			out = append(out, probe{nb[0], f, nb[1]})
		}
	}
	return out
}

// SweepSizes lists the core sizes of the sweep.
func SweepSizes(thorough bool) []uint64 {
	var out []uint64
	for m := uint64(4); m <= 70001; m++ {
		out = append(out, m)
	}
	if thorough {
		for m := uint64(70002); m <= 140001; m += 7 {
			out = append(out, m)
		}
	}
	return out
}

// sweep: per core size and limit pair the probes are loaded as separate
// warriors four cells apart at the top of the core (the first one around
// address 0, so that its neighbours wrap past the core end; which probe gets
// that place rotates with the core size), as many per batch as fit; one cycle
// executes every probe once, in lock step with the reference scheduler, and
// the whole core and every queue are compared. A batch that disagrees is taken
// apart: each of its probes is run alone through the ordinary single-step
// check, which reports the ones that disagree on their own.
func (ck *Checker) sweep(sizes []uint64, thorough bool, sh hx.Shard, expired func() bool) {
	rep := ck.Rep
	var lastWit string
	for idx, M := range sizes {
		if M < 4 || !sh.Mine(idx) {
			continue
		}
		if expired() {
			return
		}
		all := sweepProbes(M)
		// rotate: a different probe sits at the wrap position for each size
		rot := idx % len(all)
		probes := append(append([]probe{}, all[rot:]...), all[:rot]...)
		per := int(M / 4)
		if per > len(probes) {
			per = len(probes)
		}
		lims := [][2]uint64{{M, M}, {M/2 + 1, (M+1)/2 + 1}}
		if M < 6 {
			lims = lims[:1]
		} else if !thorough && M > 9000 {
			lims = lims[M%2 : M%2+1] // quick: one of the two limit pairs, alternating with the size
		}
		for _, l := range lims {
			R, W := l[0], l[1]
			for start := 0; start < len(probes); start += per {
				end := start + per
				if end > len(probes) {
					end = len(probes)
				}
				batch := probes[start:end]
				base := func(j int) uint64 { return (M - uint64(4*j)%M) % M }
				stateOf := func(j int) *State {
					st := &State{M: M, R: R, W: W, P: 2, PC: base(j), Core: make([]g.Instruction, M)}
					for k, p := range batch {
						b := base(k)
						st.Core[(b+M-1)%M], st.Core[b], st.Core[(b+1)%M] = p.before, p.ins, p.after
					}
					return st
				}
				var panicked, bad string
				func() {
					defer func() {
						if r := recover(); r != nil {
							panicked = fmt.Sprint(r)
						}
					}()
					cfg := g.SimulatorConfig{Mode: g.ICWS94, CoreSize: g.Address(M), Processes: 2, Cycles: 4,
						ReadLimit: g.Address(R), WriteLimit: g.Address(W), Length: 3, Distance: 0}
					sim, err := g.NewReportingSimulator(cfg)
					if err != nil {
						panicked = "config rejected: " + err.Error()
						return
					}
					mars := ref.NewMars(M, R, W, 2, 4)
					var hs []g.Warrior
					for _, p := range batch {
						h, err := sim.AddWarrior(&g.WarriorData{Code: []g.Instruction{p.before, p.ins, p.after}, Start: 1})
						if err != nil {
							panicked = "AddWarrior: " + err.Error()
							return
						}
						hs = append(hs, h)
						mars.Add()
					}
					// load from the highest address down so that a probe's cells are not
					// overwritten by a later load (the cells are disjoint anyway)
					for j, p := range batch {
						off := (base(j) + M - 1) % M
						if err := sim.SpawnWarrior(j, g.Address(off)); err != nil {
							panicked = "SpawnWarrior: " + err.Error()
							return
						}
						mars.Spawn(j, []g.Instruction{p.before, p.ins, p.after}, 1, off)
					}
					sim.RunCycle()
					mars.Cycle()
					rep.States++
					rep.Transitions += int64(len(batch))
					rep.Traces += int64(len(batch))
					rep.Counters["sweep:probe-steps"] += int64(len(batch))
					for a := uint64(0); a < M; a++ {
						if x := sim.GetMem(g.Address(a)); x != mars.Core[a] {
							bad = fmt.Sprintf("after one cycle of the batch: cell %d is %s, reference %s", a, hx.InsStr(x), hx.InsStr(mars.Core[a]))
							break
						}
					}
					for j, h := range hs {
						if q := h.Queue(); bad == "" && !eqQueue(q, mars.Ws[j].Q) {
							bad = fmt.Sprintf("after one cycle of the batch: queue of the probe at %d is %v, reference %v", base(j), q, mars.Ws[j].Q)
						}
					}
				}()
				if panicked == "" && bad == "" {
					continue
				}
				// take the batch apart
				before := rep.NViol
				for j, p := range batch {
					st := &State{M: M, R: R, W: W, P: 2, PC: 0, Core: make([]g.Instruction, M)}
					st.Core[M-1], st.Core[0], st.Core[1] = p.before, p.ins, p.after
					ck.Check(st)
					st = stateOf(j)
					ck.Check(st)
				}
				if rep.NViol == before {
					// no probe fails alone: report the batch itself
					for _, p := range ck.props() {
						if (p == "C01" || panicked != "") && rep.Hit(p, "core-size-sweep") {
							rep.Add(p, "core-size-sweep", stateOf(0).String(), "batch of probes executed in one cycle: "+bad+panicked)
						}
					}
				}
			}
		}
		lastWit = fmt.Sprintf("M=%d: %d probes in batches of %d at addresses 0, M-4, M-8, ...", M, len(probes), per)
	}
	if lastWit != "" {
		rep.Sample(lastWit)
	}
}

func eqQueue(a []g.Address, b []uint64) bool {
	if len(a) != len(b) {
		return false
	}
	for i := range a {
		if uint64(a[i]) != b[i] {
			return false
		}
	}
	return true
}

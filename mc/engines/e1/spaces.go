package e1

import (
	"fmt"
	"time"

	g "github.com/bobertlo/gmars"

	"verif/mc/hx"
)

// Tags of the non-executing cells of the total M=3 space: distinct from each
// other in every component so that whole-instruction moves and comparisons
// are observable.
var (
	tag1 = g.Instruction{Op: g.ADD, OpMode: g.AB, AMode: g.IMMEDIATE, BMode: g.B_INDIRECT}
	// second-step variant of the neighbours: immediate operands in either position
	tag1imm = g.Instruction{Op: g.ADD, OpMode: g.F, AMode: g.B_INCREMENT, BMode: g.IMMEDIATE}
	tag2imm = g.Instruction{Op: g.SNE, OpMode: g.X, AMode: g.IMMEDIATE, BMode: g.A_DECREMENT}
	tag2    = g.Instruction{Op: g.JMZ, OpMode: g.X, AMode: g.B_DECREMENT, BMode: g.A_INDIRECT}
)

// tagSchemes returns the (tag of cell PC+1, tag of cell PC+2) pairs used for
// a form. Forms that move or compare whole instructions additionally see
// neighbours that are equal or differ in exactly one component.
func tagSchemes(f int) [][2]g.Instruction {
	out := [][2]g.Instruction{{tag1, tag2}}
	if TwoSteps {
		out = append(out, [2]g.Instruction{tag1imm, tag2imm})
	}
	op, md, _, _ := hx.Form(f)
	if md == g.I && (op == g.MOV || op == g.CMP || op == g.SEQ || op == g.SNE) {
		v := tag1
		out = append(out, [2]g.Instruction{tag1, v})
		v = tag1
		v.Op = g.SUB
		out = append(out, [2]g.Instruction{tag1, v})
		v = tag1
		v.OpMode = g.BA
		out = append(out, [2]g.Instruction{tag1, v})
		v = tag1
		v.AMode = g.DIRECT
		out = append(out, [2]g.Instruction{tag1, v})
		v = tag1
		v.BMode = g.B_INCREMENT
		out = append(out, [2]g.Instruction{tag1, v})
	}
	return out
}

func splitmix(x uint64) uint64 {
	x += 0x9e3779b97f4a7c15
	x = (x ^ (x >> 30)) * 0xbf58476d1ce4e5b9
	x = (x ^ (x >> 27)) * 0x94d049bb133111eb
	return x ^ (x >> 31)
}

// Background builds dense deterministic background k for core size M: every
// cell gets a pseudo-arbitrary form and non-zero fields; background 2 has
// zero fields sprinkled in (division by zero, JMZ/JMN/DJN edge).
func Background(k int, M uint64) []g.Instruction {
	c := make([]g.Instruction, M)
	for a := uint64(0); a < M; a++ {
		x := splitmix(uint64(k)*7919 + a*104729 + M)
		c[a] = hx.Mk(int(x%hx.NForms), 1+(x>>16)%(M-1), 1+(x>>36)%(M-1))
		if k == 2 {
			switch a % 3 {
			case 0:
				c[a].A = 0
			case 1:
				c[a].B = 0
			}
		}
	}
	return c
}

// Run enumerates the spaces of the tier. deadline bounds the run (zero: none).
func Run(rep *hx.Report, props Props, tier string, sh hx.Shard, deadline time.Time) {
	TwoSteps = props.C01 && !props.C15
	ck := &Checker{Rep: rep, Props: props}
	expired := func() bool {
		if !deadline.IsZero() && time.Now().After(deadline) {
			rep.Exhaustive = false
			rep.Note("tier time cap reached; remaining forms of the current space not covered")
			return true
		}
		return false
	}
	thorough := tier == "thorough"

	// S1: total space for M=3.
	pcs := []uint64{0}
	ps := []uint64{2}
	if thorough {
		pcs = []uint64{0, 1, 2}
		ps = []uint64{1, 2}
	}
	if props.C04 && !thorough {
		ps = []uint64{1, 2}
	}
	rep.Bound = fmt.Sprintf("S1: M=3 all forms x 9 fields x 81 neighbour fields x R,W in 1..3 x P in %v x PC in %v (for C01 every state is followed by a second step on the same simulator, with a second set of neighbour tags that have immediate operands)", ps, pcs)
	{
		const M = 3
		st := &State{M: M, Core: make([]g.Instruction, M)}
		for f := 0; f < hx.NForms; f++ {
			if !sh.Mine(f) {
				continue
			}
			if expired() {
				return
			}
			for _, tags := range tagSchemes(f) {
				for ab := uint64(0); ab < 9; ab++ {
					for nb := uint64(0); nb < 81; nb++ {
						for _, pc := range pcs {
							st.PC = pc
							st.Core[pc] = hx.Mk(f, ab/3, ab%3)
							c1 := tags[0]
							c1.A, c1.B = g.Address(nb%3), g.Address((nb/3)%3)
							c2 := tags[1]
							c2.A, c2.B = g.Address((nb/9)%3), g.Address(nb/27)
							st.Core[(pc+1)%M] = c1
							st.Core[(pc+2)%M] = c2
							for r := uint64(1); r <= M; r++ {
								for w := uint64(1); w <= M; w++ {
									for _, p := range ps {
										st.R, st.W, st.P = r, w, p
										ck.Check(st)
									}
									if len(ps) == 1 && f/448 == int(g.SPL) {
										// the split at a process limit of 1 (quick tier; thorough has P in {1,2} throughout)
										st.R, st.W, st.P = r, w, 1
										ck.Check(st)
									}
								}
							}
						}
					}
				}
			}
		}
		rep.Sample(st.String())
	}

	// S2a: dense backgrounds.
	ms := []uint64{8}
	if thorough {
		ms = []uint64{4, 5, 7, 8, 9, 16}
	}
	rep.Bound += fmt.Sprintf("; S2a: M in %v all forms x all field pairs x all (R,W) (40 pairs for M=16) x 3 dense backgrounds, PC at the last two cells (thorough: also the first)", ms)
	for _, M := range ms {
		var lim [][2]uint64
		if M <= 9 {
			for r := uint64(1); r <= M; r++ {
				for w := uint64(1); w <= M; w++ {
					lim = append(lim, [2]uint64{r, w})
				}
			}
		} else {
			vals := []uint64{1, 2, 3, 7, 8, 15, 16}
			for _, r := range vals {
				for _, w := range vals {
					lim = append(lim, [2]uint64{r, w})
				}
			}
			lim = lim[:40]
		}
		bgs := [][]g.Instruction{Background(0, M), Background(1, M), Background(2, M)}
		// quick: the last two cells (a skip or a fall-through from either wraps
		// past the end of the core); thorough adds the first cell
		pcsM := []uint64{M - 2, M - 1}
		if thorough && M <= 8 {
			pcsM = []uint64{0, M - 2, M - 1}
		}
		st := &State{M: M, P: 2, Core: make([]g.Instruction, M)}
		for f := 0; f < hx.NForms; f++ {
			if !sh.Mine(f) {
				continue
			}
			if expired() {
				return
			}
			for _, bg := range bgs {
				for _, pc := range pcsM {
					copy(st.Core, bg)
					st.PC = pc
					for a := uint64(0); a < M; a++ {
						for b := uint64(0); b < M; b++ {
							st.Core[pc] = hx.Mk(f, a, b)
							for li, l := range lim {
								if !thorough && pc == M-1 && li%5 != 0 && !(l[0] == M && l[1] == M) {
									continue // quick: the second PC with a fifth of the limit pairs
								}
								st.R, st.W = l[0], l[1]
								ck.Check(st)
							}
						}
					}
				}
			}
		}
		rep.Sample(st.String())
	}

	// S2m: the other simulator modes (ICWS88, NOP94): the step semantics do not depend on the mode.
	{
		const M = 8
		var lim [][2]uint64
		for r := uint64(1); r <= M; r++ {
			for w := uint64(1); w <= M; w++ {
				if thorough || r == w || r == M || w == M || (r+w)%5 == 0 {
					lim = append(lim, [2]uint64{r, w})
				}
			}
		}
		bg := Background(1, M)
		for _, mode := range []int{1, 2} {
			st := &State{M: M, P: 2, Mode: mode, Core: make([]g.Instruction, M)}
			for f := 0; f < hx.NForms; f++ {
				if !sh.Mine(f) {
					continue
				}
				if expired() {
					return
				}
				copy(st.Core, bg)
				st.PC = M - 1
				for a := uint64(0); a < M; a++ {
					for b := uint64(0); b < M; b++ {
						if !thorough && (a+b+uint64(f))%2 == 1 {
							continue
						}
						st.Core[st.PC] = hx.Mk(f, a, b)
						for _, l := range lim {
							st.R, st.W = l[0], l[1]
							ck.Check(st)
						}
					}
				}
			}
			rep.Sample(st.String())
		}
		rep.Bound += "; S2m: simulator modes ICWS88 and NOP94: M=8, PC at the last cell, all forms x field pairs (quick: half of them) x limit pairs (quick: equal, one of them M, or r+w divisible by 5) on a dense background"
	}

	// S3: large cores (field arithmetic far above 16 bits: 8000, 55440 and 2^20 cells).
	if props.C01 || props.C04 || props.C11 {
		larges := []uint64{8000, 100003}
		if thorough {
			larges = []uint64{8000, 55440, 100003, 1 << 20, 1000003}
		}
		for _, M := range larges {
			vals := []uint64{0, 1, 2, M / 2, M/2 + 1, M - 2, M - 1, 46341 % M, 65536 % M}
			if M >= 100000 {
				// products of these exceed 2^32 (and 2^31, 2^33); 100003 and 1000003 are not powers of two,
				// so that a truncation to 32 bits changes the residue
				vals = []uint64{1, M/2 + 1, M - 1, 65537 % M, 92683 % M}
			} else if M > 8000 {
				vals = []uint64{0, 1, M / 2, M/2 + 1, M - 1} // 55440: every form, fewer field values
			}
			if M >= 1<<20 {
				vals = vals[:4] // a check costs tens of milliseconds at this size
			}
			// pointers just below a multiple of the reduced limit used below
			lim := M/2 - 1750
			vals = append(vals, lim-1, 2*lim-1)
			st := &State{M: M, P: 2, R: M, W: M, Core: make([]g.Instruction, M)}
			for f := 0; f < hx.NForms; f++ {
				if !sh.Mine(f) {
					continue
				}
				if expired() {
					return
				}
				op, _, am, bm := hx.Form(f)
				if !thorough {
					// quick: the arithmetic opcodes with direct / immediate / B-indirect operands
					if op < g.ADD || op > g.MOD || am > g.B_INDIRECT || bm > g.B_INDIRECT {
						continue
					}
				} else if M >= 1<<20 && (am > g.B_INDIRECT || bm > g.B_INDIRECT) {
					continue
				}
				if M >= 100000 && (!thorough || M < 1<<20) && (am > g.IMMEDIATE || bm > g.IMMEDIATE) {
					continue // (every form at 100003 cells is in S3m)
				}
				if M == 100003 && thorough && (op < g.ADD || op > g.MOD) {
					continue
				}
				pcs3 := []uint64{0, M - 1}
				if thorough && M > 8000 {
					pcs3 = []uint64{M - 1}
				}
				for _, pc := range pcs3 {
					for i := range st.Core {
						st.Core[i] = g.Instruction{}
					}
					st.PC = pc
					for _, a := range vals {
						for _, b := range vals {
							st.Core[pc] = hx.Mk(f, a, b)
							st.R, st.W = M, M
							if (a+b)%3 == 1 || a == lim-1 || a == 2*lim-1 || b == lim-1 || b == 2*lim-1 {
								st.R, st.W = M/2-1750, M/2-1750 // limits below the core size (48251 for M=100003)
							} else if (a+b)%3 == 2 {
								st.R, st.W = M/2+1, M-2
							}
							// the cells the operands can reach get large fields too
							for _, t := range []uint64{a, b} {
								c := (pc + t) % M
								if c != pc {
									st.Core[c] = g.Instruction{Op: g.DAT, A: g.Address((M - 1 - t/3) % M), B: g.Address((M/2 + t) % M)}
								}
							}
							ck.Check(st)
							for _, t := range []uint64{a, b} {
								if c := (pc + t) % M; c != pc {
									st.Core[c] = g.Instruction{}
								}
							}
						}
					}
				}
			}
			rep.Sample(st.String())
		}
		rep.Bound += fmt.Sprintf("; S3: M in %v, PC at the first and the last cell (thorough: the last cell only above 8000 cells), forms x field pairs from {0,1,2,M/2,M/2+1,M-2,M-1,46341,65536,L-1,2L-1} (L the reduced limit) with large fields in the operand cells, limits (M,M), (M/2-1750,M/2-1750) and (M/2+1,M-2) in rotation; for M >= 100003 five (four from 2^20) values whose products exceed 2^32; 55440: every form x 5 field values; 100003: arithmetic opcodes with direct/immediate operands; 2^20 and 1000003: every opcode x modifier with direct / immediate / B-indirect operands, single step", larges)
	}

	// S3m: every form on mid-sized and power-of-two cores and on the 100003-cell core.
	if props.C01 || props.C04 || props.C11 {
		mids := []uint64{256, 4096, 100003}
		if thorough {
			mids = []uint64{256, 4096, 65536, 100003}
		}
		for _, M := range mids {
			vals := []uint64{0, 1, 255, 256 % M, M / 2, M - 1}
			if M >= 65536 {
				vals = []uint64{1, 65537 % M, M - 1}
				if thorough {
					vals = []uint64{0, 1, 256, 65537 % M, M / 2, M - 1}
				}
			}
			st := &State{M: M, P: 2, R: M, W: M, Core: make([]g.Instruction, M)}
			for f := 0; f < hx.NForms; f++ {
				if !sh.Mine(f) {
					continue
				}
				if expired() {
					return
				}
				st.PC = M - 1
				for ai, a := range vals {
					for bi, b := range vals {
						if M >= 65536 && !thorough && (ai+bi+f)%2 == 1 {
							continue // quick: half of the pairs per form, alternating with the form
						}
						st.Core[st.PC] = hx.Mk(f, a, b)
						switch (a + b + uint64(f)) % 3 {
						case 0:
							st.R, st.W = M, M
						case 1:
							st.R, st.W = M/4, M/4
						default:
							st.R, st.W = M/2+1, M-2
						}
						for _, t := range []uint64{a, b} {
							if c := (st.PC + t) % M; c != st.PC {
								st.Core[c] = g.Instruction{Op: g.DAT, A: g.Address((M - 1 - t/3) % M), B: g.Address((M/2 + t) % M)}
							}
						}
						ck.Check(st)
						for _, t := range []uint64{a, b} {
							if c := (st.PC + t) % M; c != st.PC {
								st.Core[c] = g.Instruction{}
							}
						}
					}
				}
			}
			rep.Sample(st.String())
		}
		rep.Bound += fmt.Sprintf("; S3m: M in %v, PC at the last cell, every form x field pairs from {0,1,255,256,M/2,M-1} (for M >= 65536 quick: {1,65537,M-1}, half of the pairs per form) with large fields in the operand cells, limits (M,M), (M/4,M/4), (M/2+1,M-2) in rotation", mids)
	}

	// S5: the core-size sweep (sweep.go).
	if props.C01 || props.C11 {
		sizes := SweepSizes(thorough)
		ck.sweep(sizes, thorough, sh, expired)
		rep.Bound += fmt.Sprintf("; S5: core-size sweep: %d core sizes (every size 4..70001; thorough: also every 7th up to 140001) x limits (M,M) and (M/2+1,(M+1)/2+1) (quick: one of the two above 9000 cells, alternating) x 48 probes (16 forms with fields M-1, M/2, M/2+1 and indirection through neighbours holding the largest fields, 3 neighbour pairs) loaded four cells apart from address 0 downwards and executed in one cycle in lock step with the reference scheduler, whole core and all queues compared; a batch that disagrees is taken apart into single steps", len(sizes))
	}

	// S4 (C04 only): limits above the core size, which the configuration check
	// accepts (the nop256 preset has them): every limit up to 4M+2, and the presets' own pairs.
	if props.C04 {
		type cfg struct{ M, R, W uint64 }
		var cfgs []cfg
		for _, M := range []uint64{5, 8} {
			for L := M + 1; L <= 4*M+2; L++ {
				cfgs = append(cfgs, cfg{M, L, L}, cfg{M, L, M}, cfg{M, M, L})
			}
		}
		cfgs = append(cfgs, cfg{256, 800, 800}, cfg{80, 800, 800}, cfg{8192, 8000, 8000}, cfg{100, 257, 301})
		for _, cf := range cfgs {
			M := cf.M
			vals := []uint64{0, 1, M / 2, M - 1}
			if M > 64 {
				vals = []uint64{1, M - 1}
			}
			bg := Background(1, M)
			st := &State{M: M, P: 2, R: cf.R, W: cf.W, Core: make([]g.Instruction, M)}
			for f := 0; f < hx.NForms; f++ {
				if !sh.Mine(f) {
					continue
				}
				if expired() {
					return
				}
				for _, pc := range []uint64{0, M - 1} {
					copy(st.Core, bg)
					st.PC = pc
					// the cells next to the PC hold the largest fields (pointer sums up to 2M-2)
					st.Core[(pc+M-1)%M].A, st.Core[(pc+M-1)%M].B = g.Address(M-1), g.Address(M-1)
					st.Core[(pc+1)%M].A, st.Core[(pc+1)%M].B = g.Address(M-1), g.Address(M-2)
					for _, a := range vals {
						for _, b := range vals {
							st.Core[pc] = hx.Mk(f, a, b)
							ck.Check(st)
						}
					}
				}
			}
			rep.Sample(st.String())
		}
		rep.Bound += "; S4 (invariants only): limits above the core size: M in {5,8} x every limit L in M+1..4M+2 as (L,L), (L,M), (M,L), and (M,R,W) in {(256,800,800), (80,800,800), (8192,8000,8000), (100,257,301)}: every form x 16 field pairs (4 for the larger cores) x PC at the first and last cell on a dense core whose neighbour cells hold the largest fields"
	}

	if !thorough {
		return
	}

	// S2c: sparse cores, deviation bound 2 from the empty core.
	rep.Bound += "; S2c: M=5 PC=0 all forms x 25 field pairs x every core with <=2 non-empty neighbours (25 field pairs each) x 5 limit pairs"
	{
		const M = 5
		lims := [][2]uint64{{5, 5}, {3, 5}, {5, 3}, {2, 4}, {1, 5}}
		st := &State{M: M, P: 2, Core: make([]g.Instruction, M)}
		inner := func() {
			for _, l := range lims {
				st.R, st.W = l[0], l[1]
				ck.Check(st)
			}
		}
		for f := 0; f < hx.NForms; f++ {
			if !sh.Mine(f) {
				continue
			}
			if expired() {
				return
			}
			for ab := uint64(0); ab < 25; ab++ {
				for i := range st.Core {
					st.Core[i] = g.Instruction{}
				}
				st.Core[0] = hx.Mk(f, ab/5, ab%5)
				inner()
				for c1 := 1; c1 < M; c1++ {
					for v1 := uint64(1); v1 < 25; v1++ {
						st.Core[c1].A, st.Core[c1].B = g.Address(v1/5), g.Address(v1%5)
						inner()
						for c2 := c1 + 1; c2 < M; c2++ {
							for v2 := uint64(1); v2 < 25; v2++ {
								st.Core[c2].A, st.Core[c2].B = g.Address(v2/5), g.Address(v2%5)
								inner()
							}
							st.Core[c2] = g.Instruction{}
						}
					}
					st.Core[c1] = g.Instruction{}
				}
			}
		}
		rep.Sample(st.String())
	}
}

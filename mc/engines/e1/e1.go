// Package e1 is the step-space engine: it enumerates complete initial states
// of one simulator step (core size, limits, process limit, program counter and
// every cell of the core), executes the step through the public API of gmars
// and compares with the reference step. It serves C01, C11, C04 (successor
// invariants) and C15 (per-task reports).
package e1

import (
	"fmt"
	"strings"

	g "github.com/bobertlo/gmars"

	"verif/mc/hx"
	"verif/mc/ref"
)

// Props selects the oracles to evaluate.
type Props struct{ C01, C11, C04, C15 bool }

func ParseProps(s string) Props {
	var p Props
	for _, x := range strings.Split(s, ",") {
		switch x {
		case "C01":
			p.C01 = true
		case "C11":
			p.C11 = true
		case "C04":
			p.C04 = true
		case "C15":
			p.C15 = true
		}
	}
	return p
}

// State is one initial state of a step.
type State struct {
	M, R, W, P, PC uint64
	Core           []g.Instruction
	// Mode is the simulator mode; the zero value stands for ICWS94 (the
	// default of every space), 1 for ICWS88, 2 for NOP94.
	Mode int
}

func (s *State) simMode() g.SimulatorMode {
	switch s.Mode {
	case 1:
		return g.ICWS88
	case 2:
		return g.NOP94
	}
	return g.ICWS94
}

func (s *State) modePrefix() string {
	if s.Mode == 0 {
		return ""
	}
	return fmt.Sprintf("mode=%d ", s.Mode)
}

func (s *State) String() string {
	if s.M > 64 {
		// large cores are written sparsely: index:instruction for the non-empty cells
		var parts []string
		for i, x := range s.Core {
			if x != (g.Instruction{}) {
				parts = append(parts, fmt.Sprintf("%d:%s", i, hx.InsStr(x)))
			}
		}
		return s.modePrefix() + fmt.Sprintf("M=%d R=%d W=%d P=%d PC=%d core=@{%s}", s.M, s.R, s.W, s.P, s.PC, strings.Join(parts, ";"))
	}
	return s.modePrefix() + fmt.Sprintf("M=%d R=%d W=%d P=%d PC=%d core=%s", s.M, s.R, s.W, s.P, s.PC, hx.CoreStr(s.Core))
}

// ParseState parses the String format.
func ParseState(w string) (*State, error) {
	st := &State{}
	if strings.HasPrefix(w, "mode=") {
		if _, err := fmt.Sscanf(w, "mode=%d", &st.Mode); err != nil {
			return nil, err
		}
		w = w[strings.Index(w, " ")+1:]
	}
	i := strings.Index(w, "core=")
	if i < 0 {
		return nil, fmt.Errorf("no core in %q", w)
	}
	if _, err := fmt.Sscanf(w[:i], "M=%d R=%d W=%d P=%d PC=%d", &st.M, &st.R, &st.W, &st.P, &st.PC); err != nil {
		return nil, err
	}
	if body := strings.TrimSpace(w[i+5:]); strings.HasPrefix(body, "@{") {
		st.Core = make([]g.Instruction, st.M)
		body = strings.TrimSuffix(strings.TrimPrefix(body, "@{"), "}")
		for _, part := range strings.Split(body, ";") {
			if part == "" {
				continue
			}
			j := strings.Index(part, ":")
			var idx uint64
			if _, err := fmt.Sscanf(part[:j], "%d", &idx); err != nil || idx >= st.M {
				return nil, fmt.Errorf("bad sparse cell %q", part)
			}
			ins, err := hx.ParseIns(part[j+1:])
			if err != nil {
				return nil, err
			}
			st.Core[idx] = ins
		}
		return st, nil
	}
	c, err := hx.ParseCore(w[i+5:])
	if err != nil {
		return nil, err
	}
	st.Core = c
	return st, nil
}

type recorder struct {
	reps []g.Report
}

func (r *recorder) Report(x g.Report) { r.reps = append(r.reps, x) }

// Obs is what was observed from gmars for one step.
type Obs struct {
	Panic   string
	Core    []g.Instruction
	Queue   []g.Address
	Ret     int
	Alive   bool
	Living  int
	Cycles  int
	Reports []g.Report
	RecSt   []g.CoreState
	RecOwn  []int
	// a second recorder with read recording switched on
	RecSt2  []g.CoreState
	RecOwn2 []int
	// after a second RunCycle (only when requested)
	Core2  []g.Instruction
	Queue2 []g.Address
}

// TwoSteps makes Exec run a second cycle on the same simulator: the second
// step starts from a state that has a history (whatever the first step left
// in the simulator besides core and queue).
var TwoSteps bool

// Exec runs the step on gmars through the public API.
func Exec(st *State, listen bool) (o Obs) {
	defer func() {
		if r := recover(); r != nil {
			o.Panic = fmt.Sprint(r)
		}
	}()
	cfg := g.SimulatorConfig{Mode: st.simMode(), CoreSize: g.Address(st.M), Processes: g.Address(st.P), Cycles: 4,
		ReadLimit: g.Address(st.R), WriteLimit: g.Address(st.W), Length: g.Address(st.M), Distance: 0}
	sim, err := g.NewReportingSimulator(cfg)
	if err != nil {
		o.Panic = "config rejected: " + err.Error()
		return
	}
	var rc *recorder
	var sr, sr2 *g.StateRecorder
	if listen {
		rc = &recorder{}
		sim.AddReporter(rc)
		sr = g.NewStateRecorder(sim)
		sim.AddReporter(sr)
		sr2 = g.NewStateRecorder(sim)
		sr2.SetRecordRead(true)
		sim.AddReporter(sr2)
	}
	w, err := sim.AddWarrior(&g.WarriorData{Code: st.Core, Start: int(st.PC)})
	if err != nil {
		o.Panic = "AddWarrior: " + err.Error()
		return
	}
	if err := sim.SpawnWarrior(0, 0); err != nil {
		o.Panic = "SpawnWarrior: " + err.Error()
		return
	}
	o.Ret = sim.RunCycle()
	o.Core = make([]g.Instruction, st.M)
	for a := uint64(0); a < st.M; a++ {
		o.Core[a] = sim.GetMem(g.Address(a))
	}
	o.Queue = w.Queue()
	o.Alive = w.Alive()
	o.Living = sim.WarriorLivingCount()
	o.Cycles = sim.CycleCount()
	if TwoSteps && !listen && len(o.Queue) > 0 && st.M < 1<<20 {
		sim.RunCycle()
		o.Core2 = make([]g.Instruction, st.M)
		for a := uint64(0); a < st.M; a++ {
			o.Core2[a] = sim.GetMem(g.Address(a))
		}
		o.Queue2 = w.Queue()
	}
	if listen {
		o.Reports = rc.reps
		o.RecSt = make([]g.CoreState, st.M)
		o.RecOwn = make([]int, st.M)
		o.RecSt2 = make([]g.CoreState, st.M)
		o.RecOwn2 = make([]int, st.M)
		for a := uint64(0); a < st.M; a++ {
			o.RecSt[a], o.RecOwn[a] = sr.GetMemState(g.Address(a))
			o.RecSt2[a], o.RecOwn2[a] = sr2.GetMemState(g.Address(a))
		}
	}
	return
}

func dist(a, b, M uint64) uint64 {
	d := (a + M - b) % M
	if M-d < d {
		d = M - d
	}
	return d
}

type Checker struct {
	Rep   *hx.Report
	Props Props
	rcore []g.Instruction
	ncore []g.Instruction
	acore []g.Instruction
}

// Check runs one state through gmars and the reference and evaluates the
// selected oracles.
func (c *Checker) Check(st *State) {
	rep := c.Rep
	rep.States++
	rep.Transitions++
	o := Exec(st, c.Props.C15)
	if o.Panic != "" {
		for _, p := range c.props() {
			if rep.Hit(p, "panic") {
				rep.Add(p, "panic", st.String(), o.Panic)
			}
		}
		return
	}
	M := st.M
	if cap(c.rcore) < int(M) {
		c.rcore = make([]g.Instruction, M)
		c.ncore = make([]g.Instruction, M)
	}
	rc := c.rcore[:M]
	copy(rc, st.Core)
	out := ref.Step(rc, M, st.R, st.W, st.PC)
	var expq [2]uint64
	nq := 0
	for _, p := range out.Push {
		if uint64(nq) < st.P {
			expq[nq] = p
			nq++
		}
	}
	rep.Traces++
	if c.Props.C01 {
		ok := true
		for a := range rc {
			if rc[a] != o.Core[a] {
				ok = false
			}
		}
		if !ok {
			if rep.Hit("C01", "core") {
				rep.Add("C01", "core", st.String(), coreDiff(o.Core, rc))
			}
		}
		qok := len(o.Queue) == nq
		if qok {
			for i := 0; i < nq; i++ {
				if uint64(o.Queue[i]) != expq[i] {
					qok = false
				}
			}
		}
		if !qok {
			if rep.Hit("C01", "queue") {
				rep.Add("C01", "queue", st.String(), fmt.Sprintf("gmars=%v ref=%v", o.Queue, expq[:nq]))
			}
		}
		c.vacuity01(st, &out, rc)
		if o.Core2 != nil && nq > 0 {
			// second step: pop the front of the reference queue, run the reference step again
			rq := append([]uint64{}, expq[:nq]...)
			pc2 := rq[0]
			rq = rq[1:]
			out2 := ref.Step(rc, M, st.R, st.W, pc2)
			for _, p := range out2.Push {
				if uint64(len(rq)) < st.P {
					rq = append(rq, p)
				}
			}
			rep.Traces++
			rep.Transitions++
			ok := len(rq) == len(o.Queue2)
			for a := range rc {
				ok = ok && rc[a] == o.Core2[a]
			}
			if ok {
				for i := range rq {
					ok = ok && rq[i] == uint64(o.Queue2[i])
				}
			}
			if !ok && rep.Hit("C01", "second-step") {
				rep.Add("C01", "second-step", st.String(), fmt.Sprintf("after a second cycle on the same simulator: %s; queue gmars=%v reference=%v", coreDiff(o.Core2, rc), o.Queue2, rq))
			}
			rep.Count("c01:second-steps")
		}
	}
	if c.Props.C11 {
		wl, rl := st.W/2, st.R/2
		for a := uint64(0); a < M; a++ {
			if o.Core[a] != st.Core[a] {
				d := dist(a, st.PC, M)
				if d > wl {
					if rep.Hit("C11", "write-distance") {
						rep.Add("C11", "write-distance", st.String(), fmt.Sprintf("cell %d changed at distance %d > floor(W/2)=%d", a, d, wl))
					}
				}
				if d == wl && d > 0 {
					rep.Count("c11:write-at-max-distance")
				}
			}
		}
		for _, q := range o.Queue {
			qa := uint64(q)
			if qa >= M {
				if rep.Hit("C11", "successor-range") {
					rep.Add("C11", "successor-range", st.String(), fmt.Sprintf("queued %d", qa))
				}
				continue
			}
			if qa == (st.PC+1)%M || qa == (st.PC+2)%M {
				continue
			}
			if d := dist(qa, st.PC, M); d > rl {
				if rep.Hit("C11", "read-distance") {
					rep.Add("C11", "read-distance", st.String(), fmt.Sprintf("successor %d at distance %d > floor(R/2)=%d", qa, d, rl))
				}
			} else if d == rl && d > 0 {
				rep.Count("c11:jump-at-max-distance")
			}
		}
		if out.WAB != out.RPB {
			rep.Count("c11:read-write-targets-differ")
		}
		// non-interference: cells farther than both floor(R/2) and
		// floor(W/2) from the PC are neither fetched nor altered, so
		// replacing their contents must not change anything else.
		far := wl
		if rl > far {
			far = rl
		}
		if 2*far+1 < M && M <= 64 {
			if cap(c.acore) < int(M) {
				c.acore = make([]g.Instruction, M)
			}
			ac := c.acore[:M]
			copy(ac, st.Core)
			for a := uint64(0); a < M; a++ {
				if dist(a, st.PC, M) > far {
					x := ac[a]
					ac[a] = g.Instruction{Op: (x.Op + 5) % 17, OpMode: (x.OpMode + 3) % 7, AMode: (x.AMode + 3) % 8, BMode: (x.BMode + 5) % 8,
						A: g.Address((uint64(x.A) + 1) % M), B: g.Address((uint64(x.B) + M - 1) % M)}
				}
			}
			alt := *st
			alt.Core = ac
			o2 := Exec(&alt, false)
			rep.Transitions++
			rep.Count("c11:far-cell-differentials")
			same := o2.Panic == "" && len(o2.Queue) == len(o.Queue)
			if same {
				for i := range o.Queue {
					same = same && o.Queue[i] == o2.Queue[i]
				}
				for a := uint64(0); a < M; a++ {
					if dist(a, st.PC, M) > far {
						same = same && o2.Core[a] == ac[a]
					} else {
						same = same && o2.Core[a] == o.Core[a]
					}
				}
			}
			if !same && rep.Hit("C11", "far-cell-interference") {
				rep.Add("C11", "far-cell-interference", st.String(), fmt.Sprintf("with cells beyond distance %d replaced: core=%s queue=%v; original run: core=%s queue=%v", far, hx.CoreStr(o2.Core), o2.Queue, hx.CoreStr(o.Core), o.Queue))
			}
		}
		if st.R == M && st.W == M {
			nc := c.ncore[:M]
			copy(nc, st.Core)
			nout := ref.Step(nc, M, 0, 0, st.PC)
			ok := true
			for a := range nc {
				if nc[a] != o.Core[a] {
					ok = false
				}
			}
			var nq2 []uint64
			for _, p := range nout.Push {
				if uint64(len(nq2)) < st.P {
					nq2 = append(nq2, p)
				}
			}
			if len(nq2) != len(o.Queue) {
				ok = false
			} else {
				for i := range nq2 {
					if nq2[i] != uint64(o.Queue[i]) {
						ok = false
					}
				}
			}
			rep.Count("c11:full-limit-steps")
			if !ok {
				if rep.Hit("C11", "full-limits-not-neutral") {
					rep.Add("C11", "full-limits-not-neutral", st.String(), fmt.Sprintf("gmars=%s q=%v nolimit=%s q=%v", hx.CoreStr(o.Core), o.Queue, hx.CoreStr(nc), nq2))
				}
			}
		}
	}
	if c.Props.C04 {
		for a := uint64(0); a < M; a++ {
			x := o.Core[a]
			if uint64(x.A) >= M || uint64(x.B) >= M {
				if rep.Hit("C04", "field-range") {
					rep.Add("C04", "field-range", st.String(), fmt.Sprintf("cell %d = %s", a, hx.InsStr(x)))
				}
			}
			if x.Op > g.NOP || x.OpMode > g.I || x.AMode > g.B_INCREMENT || x.BMode > g.B_INCREMENT {
				if rep.Hit("C04", "enum-range") {
					rep.Add("C04", "enum-range", st.String(), fmt.Sprintf("cell %d = %s", a, hx.InsStr(x)))
				}
			}
		}
		for _, q := range o.Queue {
			if uint64(q) >= M {
				if rep.Hit("C04", "pc-range") {
					rep.Add("C04", "pc-range", st.String(), fmt.Sprintf("queue %v", o.Queue))
				}
			}
		}
		if uint64(len(o.Queue)) > st.P {
			if rep.Hit("C04", "process-limit") {
				rep.Add("C04", "process-limit", st.String(), fmt.Sprintf("queue %v", o.Queue))
			}
		}
		if o.Cycles > 4 {
			if rep.Hit("C04", "cycle-limit") {
				rep.Add("C04", "cycle-limit", st.String(), fmt.Sprintf("cycles %d", o.Cycles))
			}
		}
		al := 0
		if o.Alive {
			al = 1
		}
		if o.Living != al {
			if rep.Hit("C04", "living-count") {
				rep.Add("C04", "living-count", st.String(), fmt.Sprintf("living %d alive %v", o.Living, o.Alive))
			}
		}
		if o.Alive != (len(o.Queue) > 0) {
			if rep.Hit("C04", "alive-iff-tasks") {
				rep.Add("C04", "alive-iff-tasks", st.String(), fmt.Sprintf("alive %v queue %v", o.Alive, o.Queue))
			}
		}
		if len(o.Queue) == 0 {
			rep.Count("c04:deaths")
		}
		if uint64(len(o.Queue)) == st.P {
			rep.Count("c04:queue-at-limit")
		}
	}
	if c.Props.C15 {
		c.check15(st, &o, &out, nq == 0)
	}
}

func (c *Checker) props() []string {
	var ps []string
	if c.Props.C01 {
		ps = append(ps, "C01")
	}
	if c.Props.C11 {
		ps = append(ps, "C11")
	}
	if c.Props.C04 {
		ps = append(ps, "C04")
	}
	if c.Props.C15 {
		ps = append(ps, "C15")
	}
	return ps
}

func (c *Checker) vacuity01(st *State, out *ref.StepOut, after []g.Instruction) {
	op := st.Core[st.PC].Op
	changed := false
	for a := range after {
		if after[a] != st.Core[a] {
			changed = true
		}
	}
	if changed {
		c.Rep.Count("c01:changed:" + op.String())
	}
	switch len(out.Push) {
	case 0:
		c.Rep.Count("c01:died:" + op.String())
	case 2:
		c.Rep.Count("c01:split")
		if st.P == 1 {
			c.Rep.Count("c01:split-dropped")
		}
	default:
		if out.Push[0] != (st.PC+1)%st.M {
			c.Rep.Count("c01:jumped:" + op.String())
		}
	}
}

// check15 evaluates the report oracle for the single task of this step.
func (c *Checker) check15(st *State, o *Obs, out *ref.StepOut, died bool) {
	rep := c.Rep
	M := st.M
	w := ""
	_ = w
	// locate the task's reports: everything after the WarriorTaskPop.
	popAt := -1
	for i, r := range o.Reports {
		if uint64(r.Address) >= M {
			if rep.Hit("C15", "address-range") {
				rep.Add("C15", "address-range", st.String(), fmt.Sprintf("report %d type %d address %d", i, r.Type, r.Address))
			}
		}
		switch r.Type {
		case g.SimReset, g.CycleStart, g.CycleEnd:
		default:
			if r.WarriorIndex != 0 {
				if rep.Hit("C15", "warrior-index") {
					rep.Add("C15", "warrior-index", st.String(), fmt.Sprintf("report %d type %d index %d", i, r.Type, r.WarriorIndex))
				}
			}
		}
		if r.Type == g.WarriorTaskPop && popAt < 0 {
			popAt = i
		}
	}
	if popAt < 0 {
		if rep.Hit("C15", "no-task-pop") {
			rep.Add("C15", "no-task-pop", st.String(), "no WarriorTaskPop report")
		}
		return
	}
	if uint64(o.Reports[popAt].Address) != st.PC {
		if rep.Hit("C15", "task-pop-pc") {
			rep.Add("C15", "task-pop-pc", st.String(), fmt.Sprintf("pop %d", o.Reports[popAt].Address))
		}
	}
	// no mutation / push / terminate report may precede the pop
	for _, r := range o.Reports[:popAt] {
		switch r.Type {
		case g.WarriorWrite, g.WarriorIncrement, g.WarriorDecrement, g.WarriorTaskPush, g.WarriorTaskTerminate, g.WarriorTerminate, g.WarriorRead:
			if rep.Hit("C15", "report-before-pop") {
				rep.Add("C15", "report-before-pop", st.String(), fmt.Sprintf("type %d", r.Type))
			}
		}
	}
	reported := map[uint64]bool{}
	taskTerm, warTerm := 0, 0
	for _, r := range o.Reports[popAt+1:] {
		switch r.Type {
		case g.WarriorWrite, g.WarriorIncrement, g.WarriorDecrement:
			reported[uint64(r.Address)] = true
		case g.WarriorTaskTerminate:
			taskTerm++
		case g.WarriorTerminate:
			warTerm++
		case g.WarriorTaskPop:
			if rep.Hit("C15", "second-pop") {
				rep.Add("C15", "second-pop", st.String(), "two tasks in one step")
			}
		}
	}
	// a read report names one of the two cells the instruction's operands read
	for _, r := range o.Reports[popAt+1:] {
		if r.Type == g.WarriorRead && uint64(r.Address) != out.RAB && uint64(r.Address) != out.RPB {
			if rep.Hit("C15", "read-report-address") {
				rep.Add("C15", "read-report-address", st.String(), fmt.Sprintf("read reported at %d; the operands of the instruction read cells %d and %d", r.Address, out.RAB, out.RPB))
			}
		}
	}
	may := map[uint64]bool{}
	for _, e := range out.Events {
		if e.Kind == ref.EvDec || e.Kind == ref.EvInc || e.Kind == ref.EvWrite {
			may[e.Addr] = true
		}
	}
	for a := uint64(0); a < M; a++ {
		if o.Core[a] != st.Core[a] {
			rep.Count("c15:changed-cells")
			if !reported[a] {
				if rep.Hit("C15", "unreported-change") {
					rep.Add("C15", "unreported-change", st.String(), fmt.Sprintf("cell %d changed %s -> %s with no write/increment/decrement report", a, hx.InsStr(st.Core[a]), hx.InsStr(o.Core[a])))
				}
			}
		}
	}
	for a := range reported {
		if !may[a] {
			if rep.Hit("C15", "report-of-untouched-cell") {
				rep.Add("C15", "report-of-untouched-cell", st.String(), fmt.Sprintf("cell %d reported but the reference step cannot touch it", a))
			}
		}
	}
	noPush := len(out.Push) == 0
	if noPush != (taskTerm > 0) || taskTerm > 1 {
		if rep.Hit("C15", "task-terminate") {
			rep.Add("C15", "task-terminate", st.String(), fmt.Sprintf("task queued nothing=%v, %d WarriorTaskTerminate reports", noPush, taskTerm))
		}
	}
	if died != (warTerm > 0) || warTerm > 1 {
		if rep.Hit("C15", "warrior-terminate") {
			rep.Add("C15", "warrior-terminate", st.String(), fmt.Sprintf("died=%v, %d WarriorTerminate reports", died, warTerm))
		}
	}
	if noPush {
		rep.Count("c15:task-deaths")
	}
	// state recorder: last-operation fold of the reference event stream.
	acc := make([][]g.CoreState, M)
	for a := range acc {
		acc[a] = []g.CoreState{g.CoreWritten} // spawn of a warrior as long as the core
	}
	var termAt, writeAt int64 = -1, -1
	for _, e := range out.Events {
		var s g.CoreState
		switch e.Kind {
		case ref.EvPop:
			s = g.CoreExecuted
		case ref.EvDec:
			s = g.CoreDecremented
		case ref.EvInc:
			s = g.CoreIncremented
		case ref.EvWrite:
			s = g.CoreWritten
			writeAt = int64(e.Addr)
		case ref.EvTaskTerm:
			s = g.CoreTerminated
			termAt = int64(e.Addr)
		}
		if e.Optional {
			acc[e.Addr] = append(acc[e.Addr], s)
		} else {
			acc[e.Addr] = []g.CoreState{s}
		}
	}
	if termAt >= 0 && termAt == writeAt {
		acc[termAt] = append(acc[termAt], g.CoreWritten, g.CoreTerminated)
	}
	for a := uint64(0); a < M; a++ {
		ok := false
		for _, s := range acc[a] {
			if o.RecSt[a] == s {
				ok = true
			}
		}
		if !ok || o.RecOwn[a] != 0 {
			if rep.Hit("C15", "recorder-state") {
				rep.Add("C15", "recorder-state", st.String(), fmt.Sprintf("cell %d recorder=(%d,%d) expected one of %v owner 0", a, o.RecSt[a], o.RecOwn[a], acc[a]))
			}
		}
	}
	// the read-recording recorder: the last-operation fold of the report
	// stream itself, reads included (which reads are reported is not part of
	// the property; that the recorder shows the last reported operation is)
	fold := make([]g.CoreState, M)
	for a := range fold {
		fold[a] = g.CoreWritten
	}
	for _, r := range o.Reports {
		if uint64(r.Address) >= M {
			continue
		}
		switch r.Type {
		case g.WarriorSpawn:
			for a := range fold {
				fold[a] = g.CoreWritten
			}
		case g.WarriorTaskPop:
			fold[r.Address] = g.CoreExecuted
		case g.WarriorTaskTerminate:
			fold[r.Address] = g.CoreTerminated
		case g.WarriorWrite:
			fold[r.Address] = g.CoreWritten
		case g.WarriorRead:
			fold[r.Address] = g.CoreRead
		case g.WarriorIncrement:
			fold[r.Address] = g.CoreIncremented
		case g.WarriorDecrement:
			fold[r.Address] = g.CoreDecremented
		}
	}
	for a := uint64(0); a < M; a++ {
		if o.RecSt2[a] != fold[a] || o.RecOwn2[a] != 0 {
			if rep.Hit("C15", "recorder-state-with-reads") {
				rep.Add("C15", "recorder-state-with-reads", st.String(), fmt.Sprintf("cell %d: the read-recording recorder shows (%d,%d), the last report about the cell gives state %d owner 0", a, o.RecSt2[a], o.RecOwn2[a], fold[a]))
			}
			break
		}
	}
}

// coreDiff renders the cells in which two cores differ.
func coreDiff(got, want []g.Instruction) string {
	var parts []string
	for i := range got {
		if got[i] != want[i] {
			parts = append(parts, fmt.Sprintf("cell %d: gmars %s, reference %s", i, hx.InsStr(got[i]), hx.InsStr(want[i])))
			if len(parts) >= 6 {
				break
			}
		}
	}
	return strings.Join(parts, "; ")
}

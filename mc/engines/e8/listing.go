package e8

// The -A path of the command (C16): the freshly built cmd/gmars is run with -A
// on generated warrior files; what it prints is split at blank lines and each
// block is read back with the independent listing reader (ref.ReadListing) and
// compared with the by-construction meaning of the file it was printed from.
// Two files per invocation put two warriors into one simulator, so a listing
// that depends on what was listed before it shows.

import (
	"bytes"
	"encoding/json"
	"fmt"
	"os"
	"os/exec"
	"path/filepath"
	"strconv"
	"strings"
	"time"

	g "github.com/bobertlo/gmars"

	"verif/mc/hx"
	"verif/mc/ref"
)

// LW is one warrior of a listing case.
type LW struct {
	Code  string // hx.CoreStr
	Start int
}

// LCase is one `gmars -A` invocation.
type LCase struct {
	Listing bool
	M       uint64
	Legacy  bool
	Flags   []string
	Ws      []LW
	Twice   bool `json:"Twice,omitempty"` // the same file named twice
}

func (k *LCase) witness() string {
	b, _ := json.Marshal(k)
	return string(b)
}

// source renders a warrior as Redcode with every part explicit.
func listingSource(code []g.Instruction, start int, M uint64, legacy bool, variant int) string {
	var sb strings.Builder
	sb.WriteString(";name listed\n")
	if start != 0 || variant%2 == 1 {
		fmt.Fprintf(&sb, "org %d\n", start)
	}
	for i, x := range code {
		op := strings.ToLower(x.Op.String())
		if !legacy {
			op += "." + strings.ToLower(x.OpMode.String())
		}
		sp := func(v g.Address) string {
			if (i+variant)%3 == 0 {
				return strconv.FormatUint(uint64(v), 10)
			}
			if uint64(v) > M/2 {
				return "-" + strconv.FormatUint(M-uint64(v), 10)
			}
			return strconv.FormatUint(uint64(v), 10)
		}
		fmt.Fprintf(&sb, "%s %s%s, %s%s\n", op, x.AMode, sp(x.A), x.BMode, sp(x.B))
	}
	return sb.String()
}

// CheckListing runs one -A invocation.
func (c *Ctx) CheckListing(k *LCase) {
	rep := c.Rep
	rep.States++
	fail := func(kind, detail string) {
		if rep.Hit("C16", kind) {
			rep.Add("C16", kind, k.witness(), detail)
		}
	}
	var codes [][]g.Instruction
	var files []string
	for i, w := range k.Ws {
		code, err := hx.ParseCore(w.Code)
		if err != nil {
			rep.Note("bad listing witness: " + err.Error())
			return
		}
		codes = append(codes, code)
		p := filepath.Join(c.Dir, fmt.Sprintf("l%d.red", i))
		os.WriteFile(p, []byte(listingSource(code, w.Start, k.M, k.Legacy, i)), 0o644)
		files = append(files, p)
	}
	want := k.Ws
	if k.Twice {
		files = append(files, files[0])
		codes = append(codes, codes[0])
		want = append(append([]LW{}, k.Ws...), k.Ws[0])
	}
	args := append(append([]string{"-A"}, k.Flags...), files...)
	cmd := exec.Command(c.Bin, args...)
	var so, se bytes.Buffer
	cmd.Stdout, cmd.Stderr = &so, &se
	done := make(chan error, 1)
	go func() { done <- cmd.Run() }()
	var err error
	timer := time.NewTimer(40 * time.Second)
	defer timer.Stop()
	select {
	case err = <-done:
	case <-timer.C:
		cmd.Process.Kill()
		fail("does-not-exit", "gmars "+strings.Join(args, " ")+" did not exit within 40 s")
		c.hangs++
		if c.hangs >= 2 {
			c.stop = true
			rep.Exhaustive = false
			rep.Note("two runs of the command did not exit; the worker stopped its enumeration there")
		}
		return
	}
	rep.Transitions++
	rep.Traces++
	cmdline := "gmars -A " + strings.Join(k.Flags, " ") + " <files>"
	if err != nil {
		fail("cli-exit-status", fmt.Sprintf("%s: %v; stderr: %s", cmdline, err, trunc(se.String(), 400)))
		return
	}
	out := so.String()
	// blocks separated by blank lines
	var blocks []string
	var cur []string
	for _, l := range strings.Split(out, "\n") {
		if strings.TrimSpace(l) == "" {
			if len(cur) > 0 {
				blocks = append(blocks, strings.Join(cur, "\n")+"\n")
				cur = nil
			}
			continue
		}
		cur = append(cur, l)
	}
	if len(cur) > 0 {
		blocks = append(blocks, strings.Join(cur, "\n")+"\n")
	}
	if len(blocks) != len(want) {
		fail("cli-listing-count", fmt.Sprintf("%s printed %d listings for %d files:\n%s", cmdline, len(blocks), len(want), trunc(out, 1200)))
		return
	}
	for i, b := range blocks {
		rc, rs, err := ref.ReadListing(b, k.M, k.Legacy)
		if err != nil {
			fail("cli-unreadable-listing", fmt.Sprintf("%s, listing %d: %v\n%s", cmdline, i+1, err, trunc(b, 800)))
			return
		}
		if hx.CoreStr(rc) != hx.CoreStr(codes[i]) {
			fail("cli-listing-denotes-other-code", fmt.Sprintf("%s, listing %d reads as %s, file %d denotes %s\n%s", cmdline, i+1, hx.CoreStr(rc), i+1, hx.CoreStr(codes[i]), trunc(b, 800)))
			return
		}
		if rs != want[i].Start {
			fail("cli-listing-denotes-other-entry-point", fmt.Sprintf("%s, listing %d reads as entry point %d, file %d says %d\n%s", cmdline, i+1, rs, i+1, want[i].Start, trunc(b, 800)))
			return
		}
	}
	rep.Count(fmt.Sprintf("c16:cli-invocations-with-%d-listings", len(want)))
}

func legalForms(legacy bool) []int {
	var out []int
	for f := 0; f < hx.NForms; f++ {
		if legacy {
			op, md, am, bm := hx.Form(f)
			m88, ok := ref.Legal88(op, am, bm)
			if !ok || m88 != md {
				continue
			}
		}
		out = append(out, f)
	}
	return out
}

// RunListing enumerates -A invocations: every legal form of both dialects
// packed into warriors of 1..4 instructions with boundary field values, two
// files per invocation.
func (c *Ctx) RunListing(tier string) {
	thorough := tier == "thorough"
	rep := c.Rep
	type conf struct {
		M      uint64
		legacy bool
		flags  []string
	}
	confs := []conf{
		{8000, false, nil},
		{8000, true, []string{"-8"}},
		{13, false, []string{"-s", "13", "-l", "4"}},
		{13, true, []string{"-s", "13", "-l", "4", "-8"}},
		{8192, true, []string{"-preset", "icws"}},
		{80, false, []string{"-preset", "nopnano"}},
	}
	if thorough {
		confs = append(confs,
			conf{65536, false, []string{"-s", "65536"}},
			conf{100003, true, []string{"-s", "100003", "-8"}},
			conf{800, false, []string{"-preset", "noptiny"}},
			conf{256, false, []string{"-preset", "nop256"}},
			conf{8000, false, []string{"-preset", "nop94"}},
			conf{8000, true, []string{"-preset", "88"}},
		)
	}
	var desc []string
	for _, cf := range confs {
		if p, ok := presetOf(cf.flags); ok {
			cf.M = uint64(presets[p].CoreSize)
			cf.legacy = presets[p].Mode == g.ICWS88
		}
		M := cf.M
		vals := []uint64{0, 1, 2, M / 2, M/2 + 1, M - 1, M - 2, 9 % M, 10 % M, (M - 10%M) % M, 99 % M, 100 % M, (M - 100%M) % M, 999 % M, 1000 % M, (M - 1000%M) % M}
		forms := legalForms(cf.legacy)
		maxLen := 4
		var ws []LW
		fi, n := 0, 0
		for fi < len(forms) {
			L := n%maxLen + 1
			if fi+L > len(forms) {
				L = len(forms) - fi
			}
			code := make([]g.Instruction, L)
			for j := 0; j < L; j++ {
				code[j] = hx.Mk(forms[fi+j], vals[(n*3+j)%len(vals)], vals[(n*5+j*7+1)%len(vals)])
			}
			ws = append(ws, LW{Code: hx.CoreStr(code), Start: (n / maxLen) % L})
			fi += L
			n++
		}
		step := 1
		if !thorough && !cf.legacy && len(ws) > 800 {
			step = 4 // quick tier: every fourth pair of the '94 form set
		}
		for i := 0; i+1 < len(ws); i += 2 * step {
			if !c.mine() || c.expired() {
				continue
			}
			c.CheckListing(&LCase{Listing: true, M: M, Legacy: cf.legacy, Flags: cf.flags, Ws: []LW{ws[i], ws[i+1]}})
		}
		// one file alone, and the same file named twice
		for i := 0; i < len(ws); i += 97 {
			if !c.mine() || c.expired() {
				continue
			}
			c.CheckListing(&LCase{Listing: true, M: M, Legacy: cf.legacy, Flags: cf.flags, Ws: []LW{ws[i]}})
			c.CheckListing(&LCase{Listing: true, M: M, Legacy: cf.legacy, Flags: cf.flags, Ws: []LW{ws[i]}, Twice: true})
		}
		d := fmt.Sprintf("%d", M)
		if cf.legacy {
			d += "/88"
		}
		if len(cf.flags) > 0 && cf.flags[0] == "-preset" {
			d += " (-preset " + cf.flags[1] + ")"
		}
		if step > 1 {
			d += " (every 4th pair)"
		}
		desc = append(desc, d)
	}
	rep.Bound = "freshly built cmd/gmars -A: every legal form of the dialect packed into warriors of 1..4 instructions (16 boundary field values incl. the print-width changes, signed and unsigned spellings, every entry point), two files per invocation (two warriors in one simulator), plus single files and one file named twice, under core sizes " + strings.Join(desc, ", ") + "; every printed block read back with the independent listing reader"
	rep.Sample("gmars -A -s 13 -l 4 -8 l0.red l1.red")
}

func presetOf(flags []string) (string, bool) {
	for i, f := range flags {
		if f == "-preset" && i+1 < len(flags) {
			return flags[i+1], true
		}
	}
	return "", false
}

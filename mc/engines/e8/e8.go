// Package e8 is the command-line engine (C17): the freshly built cmd/gmars is
// run on generated warrior files under every flag vector of a boundary grid
// and every fixed placement; its two result lines are compared with the
// tallies computed by the reference MARS. Random placement is explored with
// every answer of the random source forced through a build overlay.
package e8

import (
	"bytes"
	"encoding/json"
	"fmt"
	"os"
	"os/exec"
	"path/filepath"
	"regexp"
	"strconv"
	"strings"
	"time"

	g "github.com/bobertlo/gmars"

	"verif/mc/hx"
	"verif/mc/ref"
)

type Ctx struct {
	Rep      *hx.Report
	Sh       hx.Shard
	Deadline time.Time
	Bin      string // plain cmd/gmars
	BinRand  string // cmd/gmars with the random source forced ("" = unavailable)
	Dir      string // scratch directory for warrior files
	stop     bool
	unit     int
	hangs    int
}

func (c *Ctx) expired() bool {
	if c.stop {
		return true
	}
	if !c.Deadline.IsZero() && time.Now().After(c.Deadline) {
		c.stop = true
		c.Rep.Exhaustive = false
		c.Rep.Note("tier time cap reached; the enumeration was cut short")
	}
	return c.stop
}

func (c *Ctx) mine() bool {
	c.unit++
	return c.Sh.Mine(c.unit)
}

// AW is an abstract warrior: instruction list with signed fields, entry point.
type AW struct {
	Name  string
	Code  [][6]int // op, mod, amode, a, bmode, b
	Start int
}

func (w *AW) Len() int { return len(w.Code) }

// Warriors are all legal ICWS'88 instructions with the modifier '88 implies,
// so that each has a '94 rendering (explicit modifiers) and an '88 rendering.
func Warriors() []AW {
	D, I, N, P := int(g.DIRECT), int(g.IMMEDIATE), int(g.B_INDIRECT), int(g.B_DECREMENT)
	return []AW{
		{"imp", [][6]int{{int(g.MOV), int(g.I), D, 0, D, 1}}, 0},
		{"dat", [][6]int{{int(g.DAT), int(g.F), I, 0, I, 0}}, 0},
		{"ring", [][6]int{{int(g.SPL), int(g.B), D, 0, D, 0}, {int(g.JMP), int(g.B), D, -1, D, 0}}, 0},
		{"bomber", [][6]int{{int(g.DAT), int(g.F), I, 0, I, 0}, {int(g.MOV), int(g.I), D, -1, D, 2}}, 1},
		{"clear", [][6]int{{int(g.MOV), int(g.I), D, 2, P, -1}, {int(g.JMP), int(g.B), D, -1, D, 0}}, 0},
		{"dwarf", [][6]int{{int(g.ADD), int(g.AB), I, 4, D, 3}, {int(g.MOV), int(g.I), D, 2, N, 2}, {int(g.JMP), int(g.B), D, -2, D, 0}, {int(g.DAT), int(g.F), I, 0, I, 0}}, 0},
		{"counter", [][6]int{{int(g.DJN), int(g.B), D, 0, I, 3}}, 0},
		{"skipper", [][6]int{{int(g.CMP), int(g.I), D, 0, D, 1}, {int(g.JMP), int(g.B), D, -1, D, 0}}, 0},
		// a fan of processes of which only one does the bombing: the outcome
		// against a stationary opponent depends on the process limit
		{"fan", [][6]int{{int(g.SPL), int(g.B), D, 0, D, 0}, {int(g.DJN), int(g.B), D, -1, I, 5}, {int(g.MOV), int(g.I), D, 2, P, -1}}, 0},
		{"sitter", [][6]int{{int(g.JMP), int(g.B), D, 0, D, 0}}, 0},
	}
}

// Source renders the warrior as Redcode text in the dialect.
func (w *AW) Source(legacy bool) string {
	var sb strings.Builder
	fmt.Fprintf(&sb, ";name %s\n", w.Name)
	if w.Start != 0 {
		fmt.Fprintf(&sb, "org %d\n", w.Start)
	}
	for _, x := range w.Code {
		op := strings.ToLower(g.OpCode(x[0]).String())
		if !legacy {
			op += "." + strings.ToLower(g.OpMode(x[1]).String())
		}
		fmt.Fprintf(&sb, "%s %s%d, %s%d\n", op, g.AddressMode(x[2]), x[3], g.AddressMode(x[4]), x[5])
	}
	return sb.String()
}

// Ins gives the by-construction meaning under core size M.
func (w *AW) Ins(M uint64) []g.Instruction {
	out := make([]g.Instruction, len(w.Code))
	m := int(M)
	for i, x := range w.Code {
		out[i] = g.Instruction{Op: g.OpCode(x[0]), OpMode: g.OpMode(x[1]), AMode: g.AddressMode(x[2]), A: g.Address(((x[3] % m) + m) % m),
			BMode: g.AddressMode(x[4]), B: g.Address(((x[5] % m) + m) % m)}
	}
	return out
}

// Case is one CLI invocation.
type Case struct {
	W1, W2 int // warrior indices (W2 = -1: single warrior)
	Size   int
	Procs  int
	Cycles int
	Len    int
	Legacy bool
	Preset string
	Fixed  int
	Rounds int
	Rand   []int `json:"Rand,omitempty"` // forced answers of the random source (fixed == 0)
	Note   string
}

func (k *Case) witness() string {
	b, _ := json.Marshal(k)
	return string(b)
}

var presets = map[string]g.SimulatorConfig{
	"88": g.ConfigKOTH88, "icws": g.ConfigICWS88, "nop94": g.ConfigNOP94, "noptiny": g.ConfigNopTiny, "nop256": g.ConfigNop256, "nopnano": g.ConfigNopNano,
}

// config of the battle the flags describe.
func (k *Case) config() (M, P, C, L uint64, legacy bool) {
	if k.Preset != "" {
		p := presets[k.Preset]
		return uint64(p.CoreSize), uint64(p.Processes), uint64(p.Cycles), uint64(p.Length), p.Mode == g.ICWS88
	}
	return uint64(k.Size), uint64(k.Procs), uint64(k.Cycles), uint64(k.Len), k.Legacy
}

// battle computes the reference result of one round at a placement.
func (k *Case) battle(place uint64) (a1, a2 bool) {
	M, P, C, _, _ := k.config()
	ws := Warriors()
	R, W := M, M
	if k.Preset != "" {
		// a preset carries its own read/write limits (ICWS88: 8000 in a core of 8192)
		R, W = uint64(presets[k.Preset].ReadLimit), uint64(presets[k.Preset].WriteLimit)
	}
	m := ref.NewMars(M, R, W, P, C)
	m.Add()
	if k.W2 >= 0 {
		m.Add()
	}
	m.Spawn(0, ws[k.W1].Ins(M), ws[k.W1].Start, 0)
	if k.W2 >= 0 {
		m.Spawn(1, ws[k.W2].Ins(M), ws[k.W2].Start, place)
	}
	for m.Active() {
		m.Cycle()
	}
	a1 = m.Ws[0].Alive
	if k.W2 >= 0 {
		a2 = m.Ws[1].Alive
	}
	return
}

var spawnRe = regexp.MustCompile(`(?m)^w01 (\d+): Warrior Spawn`)
var randRe = regexp.MustCompile(`(?m)^VERIFRAND n=(-?\d+)`)

func (c *Ctx) files(k *Case) []string {
	_, _, _, _, legacy := k.config()
	ws := Warriors()
	var out []string
	for _, wi := range []int{k.W1, k.W2} {
		if wi < 0 {
			continue
		}
		name := fmt.Sprintf("w%d_%v.red", wi, legacy)
		p := filepath.Join(c.Dir, name)
		if _, err := os.Stat(p); err != nil {
			src := ws[wi].Source(legacy)
			if wi%2 == 1 {
				src = strings.TrimSuffix(src, "\n") // every other file ends without a newline
			}
			os.WriteFile(p, []byte(src), 0o644)
		}
		out = append(out, p)
	}
	return out
}

func (k *Case) args(debug bool) []string {
	var a []string
	if k.Preset != "" {
		a = append(a, "-preset", k.Preset)
	} else {
		a = append(a, "-s", strconv.Itoa(k.Size), "-p", strconv.Itoa(k.Procs), "-c", strconv.Itoa(k.Cycles), "-l", strconv.Itoa(k.Len))
		if k.Legacy {
			a = append(a, "-8")
		}
	}
	if k.Fixed != 0 {
		a = append(a, "-F", strconv.Itoa(k.Fixed))
	}
	if k.Rounds != 1 {
		a = append(a, "-r", strconv.Itoa(k.Rounds))
	}
	if debug {
		a = append(a, "-debug")
	}
	return a
}

// Check runs one case and compares with the reference tallies.
func (c *Ctx) Check(k *Case) {
	rep := c.Rep
	rep.States++
	fail := func(kind, detail string) {
		if rep.Hit("C17", kind) {
			rep.Add("C17", kind, k.witness(), detail)
		}
	}
	random := k.Fixed == 0 && k.W2 >= 0
	bin := c.Bin
	if random {
		if c.BinRand == "" {
			return
		}
		bin = c.BinRand
	}
	args := append(k.args(random), c.files(k)...)
	cmd := exec.Command(bin, args...)
	var so, se bytes.Buffer
	cmd.Stdout, cmd.Stderr = &so, &se
	if random {
		var s []string
		for _, r := range k.Rand {
			s = append(s, strconv.Itoa(r))
		}
		cmd.Env = append(os.Environ(), "VERIF_RAND="+strings.Join(s, ","))
	}
	done := make(chan error, 1)
	go func() { done <- cmd.Run() }()
	var err error
	timer := time.NewTimer(40 * time.Second)
	defer timer.Stop() // (time.After would keep every timer alive for its whole period)
	select {
	case err = <-done:
	case <-timer.C:
		cmd.Process.Kill()
		fail("does-not-exit", "gmars "+strings.Join(args, " ")+" did not exit within 40 s (the longest run of the grid takes about a second)")
		c.hangs++
		if c.hangs >= 2 {
			c.stop = true
			rep.Exhaustive = false
			rep.Note("two runs of the command did not exit; the worker stopped its enumeration there")
		}
		return
	}
	rep.Transitions++
	rep.Traces++
	cmdline := "gmars " + strings.Join(k.args(random), " ") + " <files>"
	if err != nil {
		fail("exit-status", fmt.Sprintf("%s: %v; stderr: %s", cmdline, err, trunc(se.String(), 400)))
		return
	}
	_ = 0
	out := so.String()
	var places []uint64
	if random {
		// placements actually used, from the debug stream; result lines are the last two
		for _, m := range spawnRe.FindAllStringSubmatch(out, -1) {
			v, _ := strconv.ParseUint(m[1], 10, 64)
			places = append(places, v)
		}
		observable := len(places) == k.Rounds
		if !observable {
			// the debug stream does not show one placement per round: only
			// the counting equations can be checked
			rep.Note("placements of random rounds could not be read from the -debug stream; only the counting equations were checked for those runs")
			places = nil
		}
		_ = randRe
		ls := strings.Split(strings.TrimRight(out, "\n"), "\n")
		if len(ls) < 2 {
			fail("stdout", fmt.Sprintf("%s printed %q", cmdline, out))
			return
		}
		out = strings.Join(ls[len(ls)-2:], "\n") + "\n"
	} else {
		for i := 0; i < k.Rounds; i++ {
			places = append(places, uint64(k.Fixed))
		}
	}
	if random && places == nil {
		var g1, gt1, g2, gt2 int
		if n, _ := fmt.Sscanf(out, "%d %d\n%d %d\n", &g1, &gt1, &g2, &gt2); n != 4 || g1+g2+gt1 != k.Rounds || gt1 != gt2 {
			fail("rounds-not-counted-once", fmt.Sprintf("%s printed %q for %d rounds", cmdline, out, k.Rounds))
		}
		return
	}
	w1, t1, w2, t2 := 0, 0, 0, 0
	for _, p := range places {
		a1, a2 := k.battle(p)
		switch {
		case k.W2 < 0:
			if a1 {
				w1++
			}
		case a1 && a2:
			t1++
			t2++
		case a1:
			w1++
		case a2:
			w2++
		}
	}
	want := fmt.Sprintf("%d %d\n", w1, t1)
	if k.W2 >= 0 {
		want += fmt.Sprintf("%d %d\n", w2, t2)
	}
	if out != want {
		fail("tallies", fmt.Sprintf("%s printed %q; the battles these options describe give %q", cmdline, out, want))
	}
	if k.W2 >= 0 {
		var g1, gt1, g2, gt2 int
		if n, _ := fmt.Sscanf(out, "%d %d\n%d %d\n", &g1, &gt1, &g2, &gt2); n == 4 {
			if g1+g2+gt1 != k.Rounds || gt1 != gt2 {
				fail("rounds-not-counted-once", fmt.Sprintf("%s printed %q for %d rounds", cmdline, out, k.Rounds))
			}
		}
	}
	if w1+w2 > 0 {
		rep.Count("c17:runs-with-a-win")
	}
	if t1 > 0 {
		rep.Count("c17:runs-with-a-tie")
	}
}

func trunc(s string, n int) string {
	if len(s) > n {
		return s[:n]
	}
	return s
}

// Run enumerates the flag grid.
func (c *Ctx) Run(tier string) {
	thorough := tier == "thorough"
	rep := c.Rep
	ws := Warriors()
	type geo struct{ s, l int }
	geos := []geo{{7, 1}, {7, 2}, {10, 2}, {13, 4}}
	procs := []int{1, 2, 8}
	cycles := []int{1, 5, 40}
	rounds := []int{1, 3}
	if !thorough {
		geos = []geo{{7, 2}, {13, 4}}
		procs = []int{1, 8}
		cycles = []int{5, 40}
	}
	// fixed placement: every ordered pair x every -F x flag grid
	for _, gm := range geos {
		for i := range ws {
			for j := range ws {
				if ws[i].Len() > gm.l || ws[j].Len() > gm.l {
					continue
				}
				if !c.mine() || c.expired() {
					continue
				}
				for F := 1; F < gm.s; F++ {
					for _, p := range procs {
						for _, cy := range cycles {
							for _, legacy := range []bool{false, true} {
								for _, r := range rounds {
									if r != 1 && !(p == procs[0] && cy == cycles[len(cycles)-1]) {
										continue
									}
									c.Check(&Case{W1: i, W2: j, Size: gm.s, Procs: p, Cycles: cy, Len: gm.l, Legacy: legacy, Fixed: F, Rounds: r})
								}
							}
						}
					}
				}
			}
		}
	}
	// the process-limit-sensitive pair under a sweep of -p around and above the core size
	for _, pr := range [][2]int{{8, 9}, {9, 8}} {
		for _, p := range []int{1, 2, 3, 5, 8, 12, 13, 14, 20, 100} {
			if !c.mine() || c.expired() {
				continue
			}
			for _, cy := range []int{40, 100} {
				for F := 1; F < 13; F++ {
					c.Check(&Case{W1: pr[0], W2: pr[1], Size: 13, Procs: p, Cycles: cy, Len: 4, Fixed: F, Rounds: 1, Note: "process-limit sweep"})
				}
			}
		}
	}
	rep.Bound = fmt.Sprintf("freshly built cmd/gmars: every ordered pair of the 10 generated warriors that fits -l x every -F in 1..M-1 x (-s,-l) in %v x -p in %v x -c in %v x -8 on/off x -r in %v; a process-limit-sensitive pair under -p in {1,2,3,5,8,12,13,14,20,100} (below, at and above the core size) x -c in {40,100} x every -F", geos, procs, cycles, rounds)
	// single warrior runs
	for i := range ws {
		if !c.mine() {
			continue
		}
		for _, legacy := range []bool{false, true} {
			for _, cy := range []int{1, 40} {
				c.Check(&Case{W1: i, W2: -1, Size: 13, Procs: 2, Cycles: cy, Len: 4, Legacy: legacy, Fixed: 0, Rounds: 2})
			}
		}
	}
	// a cycle limit beyond 16 bits given on the command line (imp against imp runs to the limit: a tie)
	if c.Sh.I == 0 {
		c.Check(&Case{W1: 0, W2: 0, Size: 13, Procs: 2, Cycles: 70000, Len: 4, Fixed: 6, Rounds: 1, Note: "-c 70000"})
		c.Check(&Case{W1: 0, W2: 9, Size: 13, Procs: 300, Cycles: 66000, Len: 4, Fixed: 6, Rounds: 2, Note: "-c 66000 -p 300"})
		c.Check(&Case{W1: 2, W2: 9, Size: 100003, Procs: 70000, Cycles: 150000, Len: 4, Fixed: 50000, Rounds: 1, Note: "-s 100003 -p 70000 -c 150000"})
	}
	// -F at and above the core size (a placement is any non-negative number; it is reduced modulo the core size)
	if c.Sh.I == 3%c.Sh.N {
		for _, pr := range [][2]int{{9, 1}, {1, 9}, {0, 1}, {3, 4}, {2, 9}} {
			for _, s := range []int{13, 8000} {
				for _, F := range []int{s, s + 1, s + 6, 2 * s, 3*s + 5, 10*s + s/2} {
					c.Check(&Case{W1: pr[0], W2: pr[1], Size: s, Procs: 8, Cycles: 40, Len: 4, Fixed: F, Rounds: 2, Note: "-F at or above the core size"})
					c.Check(&Case{W1: pr[0], W2: pr[1], Size: s, Procs: 8, Cycles: 40, Len: 4, Legacy: true, Fixed: F, Rounds: 1, Note: "-F at or above the core size"})
				}
			}
		}
	}
	// values between the grid's boundaries: mid-sized and power-of-two cores, -r 7 and 10, -c 12345, -l 100
	if c.Sh.I == 1%c.Sh.N {
		for _, k := range []*Case{
			{W1: 0, W2: 0, Size: 256, Procs: 64, Cycles: 12345, Len: 4, Fixed: 128, Rounds: 10},
			{W1: 2, W2: 9, Size: 4096, Procs: 64, Cycles: 12345, Len: 4, Fixed: 2048, Rounds: 10},
			{W1: 9, W2: 2, Size: 65536, Procs: 1000, Cycles: 12345, Len: 4, Fixed: 65536 - 5, Rounds: 7},
			{W1: 3, W2: 4, Size: 55440, Procs: 10000, Cycles: 500, Len: 4, Fixed: 27720, Rounds: 10},
			{W1: 8, W2: 9, Size: 8000, Procs: 8000, Cycles: 20000, Len: 100, Fixed: 100, Rounds: 3},
			{W1: 9, W2: 8, Size: 8000, Procs: 8000, Cycles: 20000, Len: 100, Fixed: 7900, Rounds: 3, Legacy: true},
			{W1: 4, W2: 3, Size: 800, Procs: 63, Cycles: 999, Len: 20, Fixed: 401, Rounds: 5},
			// many rounds (every round counted once: the tallies must add up to -r)
			{W1: 1, W2: 0, Size: 13, Procs: 2, Cycles: 5, Len: 4, Fixed: 6, Rounds: 255},
			{W1: 0, W2: 1, Size: 13, Procs: 2, Cycles: 5, Len: 4, Fixed: 6, Rounds: 1025},
			{W1: 0, W2: 0, Size: 13, Procs: 2, Cycles: 3, Len: 4, Fixed: 6, Rounds: 4097},
			{W1: 1, W2: 0, Size: 13, Procs: 2, Cycles: 5, Len: 4, Fixed: 6, Rounds: 70000},
		} {
			k.Note = "values between the grid's boundaries"
			c.Check(k)
		}
	}
	rep.Bound += "; -F at and above the core size (M, M+1, M+6, 2M, 3M+5, 10.5M for M in {13, 8000}, 5 pairs, both dialects); one-warrior runs; -c 70000, -c 66000 -p 300, and -s 100003 -p 70000 -c 150000 (values beyond 16 bits); runs with values between the grid's boundaries (-s 256 / 800 / 4096 / 8000 / 55440 / 65536, -p 63 / 64 / 1000 / 8000 / 10000, -c 500 / 999 / 12345 / 20000, -l 20 / 100, -r 3 / 5 / 7 / 10), and -r 255 / 1025 / 4097 / 70000 on a one-cycle battle"
	// presets
	names := []string{"88", "icws", "nop94", "noptiny", "nop256", "nopnano"}
	// imp vs imp runs to the preset's cycle limit (a tie); the ring fills the preset's process limit
	pairs := [][2]int{{0, 5}, {5, 2}, {3, 1}, {0, 0}, {2, 0}, {9, 2}}
	for _, n := range names {
		for _, pr := range pairs {
			if !c.mine() || c.expired() {
				continue
			}
			M := int(presets[n].CoreSize)
			for _, F := range []int{10, M / 2, M - 2} {
				c.Check(&Case{W1: pr[0], W2: pr[1], Preset: n, Fixed: F, Rounds: 1, Note: "preset"})
			}
		}
	}
	rep.Bound += "; each of the 6 presets with 6 pairs (incl. one that runs to the cycle limit and one that fills the process limit) and 3 placements"
	// random placement with every answer forced
	if c.BinRand == "" {
		rep.Exhaustive = false
		rep.Note("the random-source overlay could not be applied to cmd/gmars/main.go; random placement was not explored")
	} else {
		rgeos := []geo{{4, 1}, {7, 2}, {7, 1}, {10, 1}, {10, 2}, {12, 2}} // the first two: core size exactly 3*length+1 (a single legal placement)
		maxR := 2
		if thorough {
			maxR = 3
		}
		for _, gm := range rgeos {
			n := (gm.s - gm.l - 1) - 2*gm.l + 1
			prs := [][2]int{{0, 1}, {1, 0}, {0, 0}, {6, 1}, {0, 6}}
			if gm.l >= 2 {
				// pairs whose outcome depends on the placement (rounds then differ from each other)
				prs = [][2]int{{3, 9}, {9, 4}, {4, 3}, {2, 9}, {7, 3}}
			}
			for _, pr := range prs {
				if n < 1 {
					continue
				}
				for r := 1; r <= maxR; r++ {
					if !c.mine() || c.expired() {
						continue
					}
					seq := make([]int, r)
					var rec func(i int)
					rec = func(i int) {
						if i == r {
							c.Check(&Case{W1: pr[0], W2: pr[1], Size: gm.s, Procs: 2, Cycles: 20, Len: gm.l, Rounds: r, Rand: append([]int{}, seq...), Note: "random placement, forced answers"})
							rep.Count("c17:forced-random-sequences")
							return
						}
						for v := 0; v < n; v++ {
							seq[i] = v
							rec(i + 1)
						}
					}
					rec(0)
				}
			}
		}
		// ten rounds under four fixed answer patterns (all first, all last, ascending, alternating)
		if c.Sh.I == 2%c.Sh.N {
			for _, gm := range []geo{{12, 2}, {10, 2}} {
				n := (gm.s - gm.l - 1) - 2*gm.l + 1
				for _, pr := range [][2]int{{3, 9}, {9, 4}, {2, 9}} {
					for pat := 0; pat < 4; pat++ {
						seq := make([]int, 10)
						for i := range seq {
							switch pat {
							case 0:
								seq[i] = 0
							case 1:
								seq[i] = n - 1
							case 2:
								seq[i] = i % n
							default:
								seq[i] = (i % 2) * (n - 1)
							}
						}
						c.Check(&Case{W1: pr[0], W2: pr[1], Size: gm.s, Procs: 2, Cycles: 20, Len: gm.l, Rounds: 10, Rand: seq, Note: "random placement, ten rounds, forced answers"})
						rep.Count("c17:forced-random-sequences")
					}
				}
			}
		}
		rep.Bound += "; ten rounds of random placement under four forced answer patterns"
		rep.Bound += fmt.Sprintf("; random placement: (-s,-l) in {(4,1),(7,2),(7,1),(10,1),(10,2),(12,2)}, 5 pairs each (for -l 2 pairs whose outcome depends on the placement), rounds 1..%d with every answer sequence of the random source forced through a build overlay", maxR)
	}
	rep.Sample("gmars -s 13 -p 8 -c 40 -l 4 -8 -F 9 dwarf.red clear.red")
}

// Replay re-runs one case.
func (c *Ctx) Replay(wit string) error {
	var lk LCase
	if err := json.Unmarshal([]byte(wit), &lk); err == nil && lk.Listing {
		c.CheckListing(&lk)
		return nil
	}
	var k Case
	if err := json.Unmarshal([]byte(wit), &k); err != nil {
		return err
	}
	c.Check(&k)
	return nil
}

package e4

import (
	"fmt"
	"math/big"
	"strings"

	g "github.com/bobertlo/gmars"

	"verif/mc/ref"
)

var (
	signsAll   = []string{"", "-", "+", "--", "-+", "+-", "---", "-+-"}
	signsSmall = []string{"", "-", "--", "---", "-+-"}
	signsDev   = []string{"-", "--", "---"}
	leavesAll  = []int64{0, 1, 2, 3, 7, 100, 2147483647} // every leaf also spelled with one and two leading zeros (07, 0100)
)

// exprCase checks one expression in the operand context under core size M.
func (c *Ctx) operandCase(n *Node, sp bool, M uint64, prelude string) {
	e := n.Render(sp)
	v, ok := n.Eval()
	if ok && !ref.Fits32(v) {
		c.Rep.Count("c07:dropped-out-of-32-bit-range")
		return
	}
	k := &c07case{Kind: "operand", Cfg: cfgM(M, g.ICWS94), Src: prelude + "dat " + e + ", " + e + "\n"}
	if !ok {
		k.WantErr = true
	} else {
		f := ref.ModM(v, M)
		k.Fields = [][2]uint64{{f, f}}
		if v.Sign() < 0 {
			c.Rep.Count("c07:negative-values")
		}
	}
	c.runC07(k)
}

// otherContexts: FOR count, ORG/END argument, ;assert condition.
func (c *Ctx) otherContexts(n *Node, sp bool) {
	c.otherContextsM(n, sp, 8000)
	if !sp {
		// a small core: values that are non-zero multiples of the core size
		// (7, 14, 21, 98, ...) must not be taken for zero
		c.otherContextsM(n, sp, 7)
	}
}

func (c *Ctx) otherContextsM(n *Node, sp bool, M uint64) {
	e := n.Render(sp)
	v, ok := n.Eval()
	if ok && !ref.Fits32(v) {
		return
	}
	cfg := cfgM(M, g.ICWS94)
	if M < 16 {
		cfg.Length, cfg.Distance = 7, 0
	}
	if ok && v.Sign() != 0 && new(big.Int).Mod(v, new(big.Int).SetUint64(M)).Sign() == 0 {
		c.Rep.Count("c07:nonzero-multiples-of-coresize-in-other-contexts")
	}
	// ;assert
	k := &c07case{Kind: "assert", Cfg: cfg, Src: ";assert " + e + "\ndat 0, 0\n"}
	if !ok || v.Sign() == 0 {
		k.WantErr = true
	} else {
		k.Fields = [][2]uint64{{0, 0}}
	}
	c.runC07(k)
	// the condition may follow the keyword after a tab or several blanks, and directly
	// when it starts with a parenthesis or a sign
	for _, sep := range []string{"\t", "   ", ""} {
		if sep == "" && !(strings.HasPrefix(e, "(") || strings.HasPrefix(e, "-") || strings.HasPrefix(e, "+")) {
			continue
		}
		c.runC07(&c07case{Kind: "assert", Cfg: cfg, Src: ";assert" + sep + e + "\ndat 0, 0\n", WantErr: k.WantErr, Fields: k.Fields})
	}
	// several asserts: each one is a condition of its own
	k2 := &c07case{Kind: "assert", Cfg: cfg, Src: ";assert 1\n;assert " + e + "\n;assert 2\ndat 0, 0\n", WantErr: k.WantErr, Fields: k.Fields}
	c.runC07(k2)
	if !ok {
		// a zero divisor in a FOR count or ORG argument is an error too
		c.runC07(&c07case{Kind: "for", Cfg: cfg, Src: "i for " + e + "\ndat i, 0\nrof\n", WantErr: true})
		c.runC07(&c07case{Kind: "org", Cfg: cfg, Src: "org " + e + "\ndat 0, 0\n", WantErr: true})
		return
	}
	if v.Sign() >= 0 && v.Cmp(big.NewInt(6)) <= 0 {
		cnt := int(v.Int64())
		k := &c07case{Kind: "for", Cfg: cfg, Src: "i for " + e + "\ndat i, 0\nrof\n"}
		for i := 1; i <= cnt; i++ {
			k.Fields = append(k.Fields, [2]uint64{uint64(i), 0})
		}
		c.runC07(k)
		c.Rep.Count(fmt.Sprintf("c07:for-count-%d", cnt))
		if cnt < 7 {
			body := strings.Repeat("dat 0, 0\n", 7)
			f7 := make([][2]uint64, 7)
			c.runC07(&c07case{Kind: "org", Cfg: cfg, Src: "org " + e + "\n" + body, Fields: f7, Start: cnt})
			c.runC07(&c07case{Kind: "end", Cfg: cfg, Src: body + "end " + e + "\n", Fields: f7, Start: cnt})
		}
	}
}

// equSplits: every leaf in turn is replaced by an EQU name whose body carries
// the tail of the leaf's sign run and the literal (x equ -1 ... 5*-x).
func (c *Ctx) equSplits(n *Node, M uint64) {
	var ops []*Node
	n.Operands(&ops)
	for _, leaf := range ops {
		if leaf.Op != 0 {
			continue
		}
		full := leaf.Signs
		for cut := 0; cut <= len(full); cut++ {
			body := full[cut:] + fmt.Sprintf("%d", leaf.Val)
			leaf.Signs, leaf.Name = full[:cut], "x"
			// Eval must see the complete run: evaluate with the original signs
			leaf.Signs = full
			v, ok := n.Eval()
			leaf.Signs = full[:cut]
			e := n.Render(false)
			leaf.Signs, leaf.Name = full, ""
			if ok && !ref.Fits32(v) {
				continue
			}
			for _, pos := range []int{0, 1} { // definition before and after the use
				src := "x equ " + body + "\ndat " + e + ", " + e + "\n"
				if pos == 1 {
					src = "dat " + e + ", " + e + "\nx equ " + body + "\n"
				}
				k := &c07case{Kind: "operand", Cfg: cfgM(M, g.ICWS94), Src: src}
				if !ok {
					k.WantErr = true
				} else {
					f := ref.ModM(v, M)
					k.Fields = [][2]uint64{{f, f}}
				}
				c.runC07(k)
				c.Rep.Count("c07:equ-substitutions")
			}
		}
	}
}

// equSubtrees: every inner operator node in turn is moved into an EQU whose
// body is the node's text without parentheses; EQU names are substituted
// textually, so `n equ 1+1` / `n*2` is 1+1*2. The expectation is derived from
// the source text by the token evaluator (ref/expr.go).
func (c *Ctx) equSubtrees(root *Node) {
	var ops []*Node
	root.Operands(&ops)
	for _, nd := range ops[1:] {
		if nd.Op == 0 {
			continue
		}
		saved := *nd
		inner := saved
		inner.Signs, inner.Wraps = "", 0
		body := inner.Render(false)
		*nd = Node{Name: "x", Signs: saved.Signs}
		e := root.Render(false)
		*nd = saved
		for _, src := range []string{
			"x equ " + body + "\ndat " + e + ", " + e + "\n",
			"dat " + e + ", " + e + "\nx equ " + body + "\n",
			"x equ " + body + "\ni for " + e + "\ndat i, 0\nrof\n",
			"x equ " + body + "\n;assert " + e + "\ndat 0, 0\n",
		} {
			kind := "operand"
			if strings.Contains(src, " for ") {
				kind = "for"
			} else if strings.Contains(src, ";assert") {
				kind = "assert"
			}
			k, err := expectFromSource(kind, src, cfgM(8000, g.ICWS94))
			if err != nil {
				continue
			}
			if kind == "for" && (k.WantErr || len(k.Fields) > 12) {
				// negative or large counts are outside the property
				if !k.WantErr {
					continue
				}
			}
			if kind == "for" && !k.WantErr {
				// a negative count gives no lines in the reference reader; skip it (outside the property)
				if v, ok := forCountOf(src); !ok || v < 0 {
					continue
				}
			}
			if !c07InRange(src) {
				continue
			}
			c.runC07(k)
			c.Rep.Count("c07:multi-token-equ-substitutions")
		}
	}
}

// forCountOf evaluates the FOR count of a generated source with the token evaluator.
func forCountOf(src string) (int64, bool) {
	equ := ""
	for _, l := range strings.Split(src, "\n") {
		if strings.HasPrefix(l, "x equ ") {
			equ = l[6:]
		}
		if strings.HasPrefix(l, "i for ") {
			et, err1 := ref.Tokenize(equ)
			ft, err2 := ref.Tokenize(l[6:])
			if err1 != nil || err2 != nil {
				return 0, false
			}
			var toks []string
			for _, t := range ft {
				if t == "x" {
					toks = append(toks, et...)
				} else {
					toks = append(toks, t)
				}
			}
			v, err := ref.EvalTokens(toks, nil)
			if err != nil || !v.IsInt64() {
				return 0, false
			}
			return v.Int64(), true
		}
	}
	return 0, false
}

// c07InRange: every value the source denotes stays within 32 bits (checked
// with the token evaluator on the substituted text).
func c07InRange(src string) bool {
	equ := ""
	for _, l := range strings.Split(src, "\n") {
		if strings.HasPrefix(l, "x equ ") {
			equ = l[6:]
		}
	}
	for _, l := range strings.Split(src, "\n") {
		var exprs []string
		switch {
		case strings.HasPrefix(l, "dat "):
			exprs = strings.SplitN(l[4:], ",", 2)
		case strings.HasPrefix(l, "i for "):
			exprs = []string{l[6:]}
		case strings.HasPrefix(l, ";assert "):
			exprs = []string{l[8:]}
		}
		for _, e := range exprs {
			et, _ := ref.Tokenize(equ)
			ft, err := ref.Tokenize(e)
			if err != nil {
				return false
			}
			var toks []string
			for _, t := range ft {
				if t == "x" {
					toks = append(toks, et...)
				} else {
					toks = append(toks, t)
				}
			}
			v, err := ref.EvalTokens(toks, nil)
			if err == nil && !ref.Fits32(v) {
				return false
			}
		}
	}
	return true
}

// withSigns enumerates sign runs from opts on every operand of root listed in
// ops (full product) and calls f.
func withSigns(ops []*Node, opts []string, f func()) {
	var rec func(i int)
	rec = func(i int) {
		if i == len(ops) {
			f()
			return
		}
		for _, s := range opts {
			ops[i].Signs = s
			rec(i + 1)
		}
		ops[i].Signs = ""
	}
	rec(0)
}

// withSignDeviations: at most maxDev operands carry a sign run from opts.
func withSignDeviations(ops []*Node, opts []string, maxDev int, f func()) {
	var rec func(i, used int)
	rec = func(i, used int) {
		if i == len(ops) {
			f()
			return
		}
		rec(i+1, used)
		if used < maxDev {
			for _, s := range opts {
				ops[i].Signs = s
				rec(i+1, used+1)
			}
			ops[i].Signs = ""
		}
	}
	rec(0, 0)
}

// withWraps: at most maxWraps operands get one redundant parenthesis pair
// (the root may get two).
func withWraps(ops []*Node, maxWraps int, f func()) {
	var rec func(i, used int)
	rec = func(i, used int) {
		if i == len(ops) {
			f()
			return
		}
		rec(i+1, used)
		if used < maxWraps {
			ops[i].Wraps = 1
			rec(i+1, used+1)
			if i == 0 && used+2 <= maxWraps {
				ops[i].Wraps = 2
				rec(i+1, used+2)
			}
			ops[i].Wraps = 0
		}
	}
	rec(0, 0)
}

// RunC07 enumerates the expression spaces.
func (c *Ctx) RunC07(tier string) {
	thorough := tier == "thorough"
	rep := c.Rep
	small := []uint64{7, 8000, 8192}
	var last string

	// F0/F1: at most one operator, everything: all leaves, all sign runs on
	// every operand (including the parenthesised root), wraps, spacing, all
	// contexts, all core sizes, EQU splits.
	for k := 0; k <= 1; k++ {
		Shapes(k, leavesAll, func(root *Node) {
			var ops []*Node
			root.Operands(&ops)
			withSigns(ops, signsAll, func() {
				if !c.mine() || c.expired() {
					return
				}
				withWraps(ops, 2, func() {
					for _, sp := range []bool{false, true} {
						c.operandCase(root, sp, bigM, "")
					}
				})
				for _, M := range small {
					c.operandCase(root, false, M, "")
				}
				c.otherContexts(root, false)
				c.otherContexts(root, true)
				c.equSplits(root, bigM)
				c.equSplits(root, 8000)
				// literals spelled with leading zeros are decimal numbers (010 is ten)
				for _, o := range ops {
					if o.Op == 0 {
						for _, lead := range []int{1, 2} {
							o.Lead = lead
							c.operandCase(root, false, bigM, "")
							c.otherContextsM(root, false, 8000)
						}
						o.Lead = 0
					}
				}
				last = root.Render(false)
			})
		})
	}
	rep.Bound = "expressions with <=1 operator: 7 literals x all 8 sign runs on every operand x <=2 redundant parenthesis pairs x spacing on/off x every literal also with 1 and 2 leading zeros, in 5 contexts (operand under M=2^34 and M in {7,8000,8192}, FOR count, ORG, END, ;assert) and with every leaf moved into an EQU at every split of its sign run"

	// F2: two operators.
	l2, s2, inner2 := []int64{1, 2, 3}, signsSmall, []string{"", "-", "--"}
	if thorough {
		l2, s2, inner2 = []int64{0, 1, 2, 3, 7}, signsAll, signsAll
	}
	Shapes(2, l2, func(root *Node) {
		if c.expired() {
			return
		}
		var ops, leaves, inner []*Node
		root.Operands(&ops)
		for _, o := range ops[1:] {
			if o.Op == 0 {
				leaves = append(leaves, o)
			} else {
				inner = append(inner, o)
			}
		}
		withSigns(inner, inner2, func() {
			withSigns(leaves, s2, func() {
				if !c.mine() {
					return
				}
				c.operandCase(root, false, bigM, "")
				last = root.Render(false)
			})
		})
		if !c.mine() {
			return
		}
		// unsigned tree: wraps, spacing, other contexts, small cores
		withWraps(ops, 2, func() { c.operandCase(root, true, bigM, "") })
		c.equSubtrees(root)
		withSignDeviations(ops[1:], []string{"-"}, 1, func() { c.equSubtrees(root) })
		for _, M := range small {
			c.operandCase(root, false, M, "")
		}
		c.otherContexts(root, false)
	})
	rep.Bound += fmt.Sprintf("; 2 operators: both shapes x all operators x literals %v x sign runs %v on every leaf x %v on the inner operand", l2, s2, inner2)

	// F3: three operators, bounded sign deviations.
	dev3 := 1
	if thorough {
		dev3 = 2
	}
	Shapes(3, []int64{1, 2, 3}, func(root *Node) {
		if !c.mine() || c.expired() {
			return
		}
		var ops []*Node
		root.Operands(&ops)
		withSignDeviations(ops[1:], signsDev, dev3, func() {
			c.operandCase(root, false, bigM, "")
		})
		c.equSubtrees(root)
		last = root.Render(false)
	})
	rep.Bound += fmt.Sprintf("; every inner operator node of the 2- and 3-operator trees moved into a multi-token EQU (textual substitution) in the operand, FOR-count and ;assert contexts; 3 operators: all 5 shapes x all operators x literals {1,2,3} x <=%d operands with a sign run from %v", dev3, signsDev)

	if thorough {
		Shapes(4, []int64{2, 3}, func(root *Node) {
			if !c.mine() || c.expired() {
				return
			}
			var ops []*Node
			root.Operands(&ops)
			withSignDeviations(ops[1:], signsDev, 1, func() {
				c.operandCase(root, false, bigM, "")
			})
			last = root.Render(false)
		})
		rep.Bound += "; 4 operators: all 14 shapes x all operators x literals {2,3} x <=1 operand with a sign run; one run of 4 signs per expression on 2-operator trees"
		// one run of four signs
		Shapes(2, []int64{1, 2, 3}, func(root *Node) {
			if !c.mine() || c.expired() {
				return
			}
			var ops []*Node
			root.Operands(&ops)
			withSignDeviations(ops[1:], []string{"----", "-+--", "+---", "--+-"}, 1, func() {
				c.operandCase(root, false, bigM, "")
			})
		})
	}

	// F5: flat chains of 5 (thorough: also 6) operators, every operator sequence,
	// two literal assignments; one parenthesis pair over every span of the chain
	// (quick: for the sequences over - / %). Left associativity over long runs.
	{
		opsAll := []byte{'+', '-', '*', '/', '%'}
		lits := [][]string{{"7", "3", "2", "5", "1", "4", "6"}, {"9", "2", "2", "3", "1", "2", "3"}}
		lens := []int{5}
		if thorough {
			lens = []int{5, 6}
		}
		for _, n := range lens {
			total := 1
			for i := 0; i < n; i++ {
				total *= 5
			}
			for x := 0; x < total; x++ {
				if !c.mine() || c.expired() {
					continue
				}
				seq := make([]byte, n)
				y := x
				onlyHard := true
				for i := range seq {
					seq[i] = opsAll[y%5]
					y /= 5
					if seq[i] == '+' || seq[i] == '*' {
						onlyHard = false
					}
				}
				for li, lit := range lits {
					build := func(lo, hi int) string { // parenthesis pair around operands lo..hi (none when lo < 0)
						var sb strings.Builder
						for i := 0; i <= n; i++ {
							if i == lo {
								sb.WriteByte('(')
							}
							sb.WriteString(lit[i])
							if i == hi {
								sb.WriteByte(')')
							}
							if i < n {
								sb.WriteByte(seq[i])
							}
						}
						return sb.String()
					}
					emit := func(e string) {
						if k, err := expectFromSource("operand", "dat "+e+", "+e+"\n", cfgM(bigM, g.ICWS94)); err == nil {
							c.runC07(k)
							c.Rep.Count(fmt.Sprintf("c07:chains-of-%d-operators", n))
						}
						last = e
					}
					emit(build(-1, -1))
					if li == 0 && (thorough || onlyHard) {
						for lo := 0; lo < n; lo++ {
							for hi := lo + 1; hi <= n; hi++ {
								if lo == 0 && hi == n {
									continue
								}
								emit(build(lo, hi))
							}
						}
						if k, err := expectFromSource("assert", ";assert "+build(-1, -1)+"\ndat 0, 0\n", cfgM(8000, g.ICWS94)); err == nil {
							c.runC07(k)
						}
					}
				}
			}
		}
		rep.Bound += fmt.Sprintf("; flat chains of %v operators: every operator sequence x 2 literal assignments, and one parenthesis pair over every span (quick: for the sequences over - / %%)", lens)
	}

	// intermediate values beyond 32 bits with a result that fits (exact arithmetic)
	if c.Sh.I == 1%c.Sh.N {
		for _, e := range []string{"2147483647*2/2", "2147483647+1-1", "2147483647*3%7", "(2147483647+2147483647)/2", "2147483647*2147483647/2147483647", "0-2147483647*2/2", "(2147483647*4-1)/4", "2147483647*2-2147483647", "100*100*100*100*100/10000000"} {
			k, err := expectFromSource("operand", "dat "+e+", "+e+"\n", cfgM(bigM, g.ICWS94))
			if err == nil {
				c.runC07(k)
			}
			k, err = expectFromSource("assert", ";assert "+e+"\ndat 0, 0\n", cfgM(8000, g.ICWS94))
			if err == nil {
				c.runC07(k)
			}
		}
	}

	// predefined constants over 6 configurations with pairwise different values
	if c.Sh.I == 0 {
		cfgs := []g.SimulatorConfig{
			{Mode: g.ICWS94, CoreSize: 8000, Processes: 8001, Cycles: 100, ReadLimit: 8000, WriteLimit: 8000, Length: 100, Distance: 101},
			{Mode: g.ICWS94, CoreSize: 80, Processes: 7, Cycles: 100, ReadLimit: 80, WriteLimit: 80, Length: 5, Distance: 6},
			{Mode: g.ICWS88, CoreSize: 8192, Processes: 64, Cycles: 100, ReadLimit: 8192, WriteLimit: 8192, Length: 300, Distance: 200},
			{Mode: g.NOP94, CoreSize: 800, Processes: 799, Cycles: 100, ReadLimit: 800, WriteLimit: 800, Length: 20, Distance: 21},
			{Mode: g.ICWS94, CoreSize: 55440, Processes: 10000, Cycles: 100, ReadLimit: 55440, WriteLimit: 55440, Length: 200, Distance: 300},
			{Mode: g.ICWS88, CoreSize: 8000, Processes: 3, Cycles: 100, ReadLimit: 8000, WriteLimit: 8000, Length: 1, Distance: 2},
		}
		for _, cfg := range cfgs {
			M := uint64(cfg.CoreSize)
			mode := "#"
			vals := map[string]uint64{"CORESIZE": M, "MAXLENGTH": uint64(cfg.Length), "MAXPROCESSES": uint64(cfg.Processes), "MINDISTANCE": uint64(cfg.Distance)}
			names := []string{"CORESIZE", "MAXLENGTH", "MAXPROCESSES", "MINDISTANCE"}
			for _, a := range names {
				for _, b := range names {
					c.runC07(&c07case{Kind: "const", Cfg: cfg, Src: "dat " + mode + a + ", " + mode + b + "\n", Fields: [][2]uint64{{vals[a] % M, vals[b] % M}}})
					c.runC07(&c07case{Kind: "const", Cfg: cfg, Src: "dat " + mode + a + "-1, " + mode + "2*" + b + "+1\n", Fields: [][2]uint64{{(vals[a] + M - 1) % M, (2*vals[b] + 1) % M}}})
					c.runC07(&c07case{Kind: "const", Cfg: cfg, Src: "x equ " + a + "/2\ndat " + mode + "x, " + mode + "x%" + b + "\n", Fields: [][2]uint64{{(vals[a] / 2) % M, ((vals[a] / 2) % vals[b]) % M}}})
					// constants as assert conditions: non-zero (also when a multiple of the core size), zero differences
					c.runC07(&c07case{Kind: "assert", Cfg: cfg, Src: ";assert " + a + "\ndat " + mode + "0, " + mode + "0\n", Fields: [][2]uint64{{0, 0}}})
					if vals[a]*vals[b] < 1<<31 { // values beyond 32 bits are outside the property
						c.runC07(&c07case{Kind: "assert", Cfg: cfg, Src: ";assert " + a + "*" + b + "\ndat " + mode + "0, " + mode + "0\n", Fields: [][2]uint64{{0, 0}}})
					}
					c.runC07(&c07case{Kind: "assert", Cfg: cfg, Src: ";assert " + a + "-" + b + "\ndat " + mode + "0, " + mode + "0\n", Fields: [][2]uint64{{0, 0}}, WantErr: vals[a] == vals[b]})
					c.runC07(&c07case{Kind: "assert", Cfg: cfg, Src: "k equ 2*" + a + "\n;assert k\ndat " + mode + "0, " + mode + "0\n", Fields: [][2]uint64{{0, 0}}})
				}
			}
		}
		rep.Bound += "; predefined constants: all ordered pairs of the 4 names, bare and inside arithmetic and EQU bodies, under 6 configurations with pairwise different values (3 modes)"
	}
	if last != "" {
		rep.Sample("dat " + last + ", " + last)
	}
}

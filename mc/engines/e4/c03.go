package e4

import (
	"encoding/json"
	"fmt"
	"strings"

	g "github.com/bobertlo/gmars"

	"verif/mc/hx"
	"verif/mc/ref"
)

// srcCase is a source text with its by-construction meaning: the common
// witness format of C03, C06 and C08.
type srcCase struct {
	Cfg      [8]uint64 `json:"cfg"`
	Src      string    `json:"src"`
	Code     string    `json:"code"`
	Start    int       `json:"start"`
	Name     string    `json:"name"`
	Author   string    `json:"author"`
	Strategy []string  `json:"strategy"`
	Meta     bool      `json:"meta"`
	Note     string    `json:"note"`
}

func cfgArr(c g.SimulatorConfig) [8]uint64 {
	return [8]uint64{uint64(c.Mode), uint64(c.CoreSize), uint64(c.Processes), uint64(c.Cycles), uint64(c.ReadLimit), uint64(c.WriteLimit), uint64(c.Length), uint64(c.Distance)}
}

func arrCfg(a [8]uint64) g.SimulatorConfig {
	return g.SimulatorConfig{Mode: g.SimulatorMode(a[0]), CoreSize: g.Address(a[1]), Processes: g.Address(a[2]), Cycles: g.Address(a[3]),
		ReadLimit: g.Address(a[4]), WriteLimit: g.Address(a[5]), Length: g.Address(a[6]), Distance: g.Address(a[7])}
}

func (s *srcCase) witness() string {
	b, _ := json.Marshal(s)
	return string(b)
}

// checkSrc compiles the source and compares with the expected meaning.
func (c *Ctx) checkSrc(prop string, sc *srcCase) {
	rep := c.Rep
	if c.Only06 {
		c.check06(sc.Src, arrCfg(sc.Cfg))
		return
	}
	rep.States++
	cfg := arrCfg(sc.Cfg)
	w, err, pan := c.compile(prop, sc.Src, cfg)
	rep.Traces++
	fail := func(kind, detail string) {
		if rep.Hit(prop, kind) {
			rep.Add(prop, kind, sc.witness(), detail)
		}
	}
	if pan != "" {
		fail("panic", pan)
		return
	}
	if err != nil {
		fail("rejected", "well-formed program rejected: "+err.Error())
		return
	}
	if got := hx.CoreStr(w.Code); got != sc.Code {
		kind := "code"
		// classify the one known deviation precisely: an omitted modifier on
		// NOP assembled as .B where the ICWS'94 draft prescribes .F, and
		// nothing else different
		if exp, err := hx.ParseCore(sc.Code); err == nil && len(exp) == len(w.Code) {
			only := true
			for i := range exp {
				if exp[i] == w.Code[i] {
					continue
				}
				e := exp[i]
				e.OpMode = w.Code[i].OpMode
				if !(e == w.Code[i] && e.Op == g.NOP && exp[i].OpMode == g.F && w.Code[i].OpMode == g.B) {
					only = false
				}
			}
			if only {
				kind = "nop-default-modifier"
			}
		}
		fail(kind, fmt.Sprintf("assembled %s, denotes %s", got, sc.Code))
		return
	}
	if w.Start != sc.Start {
		fail("start", fmt.Sprintf("entry point %d, denotes %d", w.Start, sc.Start))
	}
	if sc.Meta {
		if w.Name != sc.Name || w.Author != sc.Author || strings.Join(ref.StrategyLines(w.Strategy), "|") != strings.Join(sc.Strategy, "|") {
			fail("metadata", fmt.Sprintf("name=%q author=%q strategy=%q; expected %q %q %q", w.Name, w.Author, w.Strategy, sc.Name, sc.Author, sc.Strategy))
		}
	}
}

func (c *Ctx) replaySrc(prop, wit string) error {
	var sc srcCase
	if err := json.Unmarshal([]byte(wit), &sc); err != nil {
		return err
	}
	c.checkSrc(prop, &sc)
	return nil
}

func mkCase(p *ref.AProg, m *ref.Meaning, cfg g.SimulatorConfig, src, note string) *srcCase {
	return &srcCase{Cfg: cfgArr(cfg), Src: src, Code: hx.CoreStr(m.Code), Start: m.Start, Name: m.Name, Author: m.Author, Strategy: m.Strategy, Meta: true, Note: note}
}

func toks(s string) []string {
	t, err := ref.Tokenize(s)
	if err != nil {
		panic(err)
	}
	return t
}

func operand(mode, expr string) ref.Operand {
	return ref.Operand{Present: true, Mode: mode, Expr: toks(expr)}
}

func baseMeta(p *ref.AProg) *ref.AProg {
	p.Name, p.Author, p.Strategy = "Test Warrior 1", "A. U. Thor", []string{"first line of strategy", "second line"}
	return p
}

// allRenderings runs p under cfg in the default rendering and with every
// deviation set of size <= maxDev.
func (c *Ctx) allRenderings(p *ref.AProg, cfg g.SimulatorConfig, maxDev int, note string) {
	m, err := ref.Denote(p, cfg)
	if err != nil {
		c.Rep.Count("c03:generator-skipped-ill-formed")
		return
	}
	src, _ := Render(p, nil)
	c.checkSrc("C03", mkCase(p, m, cfg, src, note))
	if maxDev == 0 {
		return
	}
	sites := Sites(p)
	for i, d1 := range sites {
		if s, ok := Render(p, []Dev{d1}); ok {
			c.checkSrc("C03", mkCase(p, m, cfg, s, note+" "+d1.String()))
			c.Rep.Count("c03:renderings-with-1-deviation")
		}
		if maxDev >= 2 {
			for _, d2 := range sites[i+1:] {
				if s, ok := Render(p, []Dev{d1, d2}); ok {
					c.checkSrc("C03", mkCase(p, m, cfg, s, note+" "+d1.String()+" "+d2.String()))
					c.Rep.Count("c03:renderings-with-2-deviations")
				}
			}
		}
	}
}

// RunC03 enumerates abstract programs and renderings.
func (c *Ctx) RunC03(tier string) {
	thorough := tier == "thorough"
	rep := c.Rep
	sizes := []uint64{7, 80, 8000, 8192}
	var last *srcCase

	// P1: one-instruction programs, the full opcode x modifier x mode grid,
	// with and without the B operand (every default-table row, every
	// lone-operand case), literal operands.
	lit := [][2]string{{"1", "-1"}, {"CORESIZE+1", "7"}, {"0", "CORESIZE"}}
	if !thorough {
		lit = lit[:2]
	}
	for _, M := range sizes {
		for _, dialect := range []g.SimulatorMode{g.ICWS94, g.ICWS88} {
			cfg := cfgM(M, dialect)
			ops, mods, modes := ref.OpList, append([]string{""}, ref.ModList...), append([]string{""}, ref.ModeList...)
			if dialect == g.ICWS88 {
				ops, mods, modes = ref.OpList88, []string{""}, append([]string{""}, ref.ModeList88...)
			}
			for _, op := range ops {
				for _, mod := range mods {
					if !c.mine() || c.expired() {
						continue
					}
					for _, am := range modes {
						for bi := -1; bi < len(modes); bi++ {
							for _, lv := range lit {
								p := baseMeta(&ref.AProg{})
								in := ref.AIns{Op: op, Mod: mod, A: operand(am, lv[0])}
								if bi >= 0 {
									in.B = operand(modes[bi], lv[1])
								}
								p.Ins = []ref.AIns{in}
								m, err := ref.Denote(p, cfg)
								if err != nil {
									rep.Count("c03:grid-points-outside-the-dialect")
									continue
								}
								for v := -1; v < 2; v++ {
									var devs []Dev
									if v >= 0 {
										devs = []Dev{{"case", 2 + len(p.Strategy), 0, v}}
									}
									src, _ := Render(p, devs)
									sc := mkCase(p, m, cfg, src, "grid")
									c.checkSrc("C03", sc)
									last = sc
								}
								if bi < 0 {
									rep.Count("c03:lone-operand-programs")
								}
								if mod == "" {
									rep.Count("c03:default-modifier-programs")
								}
							}
						}
					}
				}
			}
		}
	}
	rep.Bound = "one-instruction programs: every opcode x modifier (absent or 7) x A-mode (absent or 8) x B operand (absent, or mode absent or 8) legal in the dialect x literal operand pairs x lower/upper/mixed case, both dialects, M in {7,80,8000,8192}"

	// P2: three-instruction skeletons with labels and EQUs; one slot at a time
	// takes every template x every symbolic operand pair.
	type tmpl struct{ op, mod, am, bm string }
	templates := []tmpl{{"mov", "i", "$", "$"}, {"mov", "", "", ""}, {"add", "", "#", ""}, {"add", "ab", "#", "@"}, {"jmp", "", "", "-"}, {"jmz", "", "", "<"},
		{"djn", "f", ">", "{"}, {"dat", "", "#", "#"}, {"spl", "", "@", "-"}, {"slt", "", "", "}"}}
	templates88 := []tmpl{{"mov", "", "", ""}, {"mov", "", "#", "@"}, {"add", "", "#", ""}, {"jmp", "", "", "-"}, {"jmz", "", "", "<"}, {"djn", "", "@", ""},
		{"dat", "", "#", "#"}, {"spl", "", "@", "-"}, {"slt", "", "#", "$"}, {"cmp", "", "", "@"}}
	operands := []string{"0", "1", "-1", "7", "CORESIZE", "CORESIZE+1", "a", "b", "c", "x", "y", "a+1", "c-1", "b-a", "c-a", "2*x", "x+y", "-y", "MAXLENGTH", "MAXPROCESSES", "MINDISTANCE", "b*2-c", "a/2", "c%2", "(a-c)/2", "7/b"}
	equSets := [][]ref.AEqu{
		{{Name: "x", Body: toks("3")}, {Name: "y", Body: toks("x+1")}},
		{{Name: "x", Body: toks("c+1")}, {Name: "y", Body: toks("2")}},
		{{Name: "x", Body: toks("CORESIZE-1")}, {Name: "y", Body: toks("a-b")}},
		{{Name: "x", Body: toks("y*2")}, {Name: "y", Body: toks("1+2")}},
	}
	if !thorough {
		equSets = equSets[:2]
	}
	skeleton := func(d g.SimulatorMode) []ref.AIns {
		if d == g.ICWS88 {
			return []ref.AIns{
				{Labels: []string{"a"}, Op: "mov", A: operand("", "c"), B: operand("", "x")},
				{Labels: []string{"b"}, Op: "add", A: operand("#", "y"), B: operand("", "a")},
				{Labels: []string{"c"}, Op: "jmp", A: operand("", "a")},
			}
		}
		return []ref.AIns{
			{Labels: []string{"a"}, Op: "mov", Mod: "i", A: operand("", "c"), B: operand(">", "x")},
			{Labels: []string{"b"}, Op: "add", A: operand("#", "y"), B: operand("", "a")},
			{Labels: []string{"c"}, Op: "jmp", A: operand("", "a")},
		}
	}
	for _, M := range []uint64{8000, 7} {
		for _, dialect := range []g.SimulatorMode{g.ICWS94, g.ICWS88} {
			cfg := cfgM(M, dialect)
			tl := templates
			if dialect == g.ICWS88 {
				tl = templates88
			}
			for _, eq := range equSets {
				for slot := 0; slot < 3; slot++ {
					for _, t := range tl {
						if !c.mine() || c.expired() {
							continue
						}
						for _, ea := range operands {
							for _, eb := range operands {
								for startKind := 0; startKind < 3; startKind++ {
									if startKind != 0 && (ea != "a" && eb != "c") {
										continue // vary the entry-point directive on a slice of the product only
									}
									p := baseMeta(&ref.AProg{Equs: eq, Ins: skeleton(dialect)})
									in := ref.AIns{Labels: p.Ins[slot].Labels, Op: t.op, Mod: t.mod, A: operand(t.am, ea)}
									if t.bm != "-" {
										in.B = operand(t.bm, eb)
									} else if eb != operands[0] {
										continue
									}
									p.Ins[slot] = in
									p.StartKind = startKind
									if startKind != 0 {
										p.StartExpr = toks("b")
										if ea == "a" {
											p.StartExpr = toks("c-1+x-x")
										}
									}
									m, err := ref.Denote(p, cfg)
									if err != nil {
										rep.Count("c03:generator-skipped-ill-formed")
										continue
									}
									src, _ := Render(p, nil)
									sc := mkCase(p, m, cfg, src, "symbolic")
									c.checkSrc("C03", sc)
									last = sc
								}
							}
						}
					}
				}
			}
		}
	}
	rep.Bound += "; three-instruction skeletons (labels a,b,c; 2 EQUs from several definition sets incl. label-valued, constant-valued and chained): each slot in turn takes every instruction template (10 per dialect) x every pair from a 26-expression symbolic operand alphabet, entry point by nothing / ORG / END; M in {8000,7}; both dialects"

	// P2b (thorough): two slots at a time over a reduced operand alphabet.
	if thorough {
		ops8 := []string{"0", "-1", "a", "c", "x", "b-a", "2*x", "CORESIZE-1"}
		for _, dialect := range []g.SimulatorMode{g.ICWS94, g.ICWS88} {
			cfg := cfgM(8000, dialect)
			tl := templates
			if dialect == g.ICWS88 {
				tl = templates88
			}
			for _, eq := range equSets[:2] {
				for _, sp := range [][2]int{{0, 1}, {0, 2}, {1, 2}} {
					for _, t1 := range tl {
						for _, t2 := range tl {
							if !c.mine() || c.expired() {
								continue
							}
							for _, a1 := range ops8 {
								for _, b1 := range ops8 {
									for _, a2 := range ops8 {
										for _, b2 := range ops8 {
											p := baseMeta(&ref.AProg{Equs: eq, Ins: skeleton(dialect)})
											mk := func(slot int, t tmpl, ea, eb string) bool {
												in := ref.AIns{Labels: p.Ins[slot].Labels, Op: t.op, Mod: t.mod, A: operand(t.am, ea)}
												if t.bm != "-" {
													in.B = operand(t.bm, eb)
												} else if eb != ops8[0] {
													return false
												}
												p.Ins[slot] = in
												return true
											}
											if !mk(sp[0], t1, a1, b1) || !mk(sp[1], t2, a2, b2) {
												continue
											}
											m, err := ref.Denote(p, cfg)
											if err != nil {
												rep.Count("c03:generator-skipped-ill-formed")
												continue
											}
											src, _ := Render(p, nil)
											c.checkSrc("C03", mkCase(p, m, cfg, src, "symbolic, two slots"))
										}
									}
								}
							}
						}
					}
				}
			}
		}
		rep.Bound += "; (thorough) every pair of slots takes every pair of templates x every quadruple from an 8-expression operand alphabet, M=8000, both dialects, 2 EQU sets"
	}

	// P2c: long programs: label distances beyond 127 and 255 lines.
	if c.Sh.I == 0 {
		for _, n := range []int{130, 260, 300} {
			for _, dialect := range []g.SimulatorMode{g.ICWS94, g.ICWS88} {
				cfg := g.SimulatorConfig{Mode: dialect, CoreSize: 8192, Processes: 8, Cycles: 10, ReadLimit: 8192, WriteLimit: 8192, Length: 300, Distance: 100}
				p := baseMeta(&ref.AProg{Equs: []ref.AEqu{{Name: "span", Body: toks("bottom-top")}}})
				for i := 0; i < n; i++ {
					in := ref.AIns{Op: "jmp", A: operand("", "top"), B: operand("", fmt.Sprintf("%d", i))}
					switch {
					case i == 0:
						in = ref.AIns{Labels: []string{"top"}, Op: "mov", A: operand("", "bottom"), B: operand("@", "span")}
					case i == n-1:
						in = ref.AIns{Labels: []string{"bottom"}, Op: "djn", A: operand("", "top"), B: operand("<", "top-span")}
					case i%50 == 7:
						in = ref.AIns{Labels: []string{fmt.Sprintf("m%d", i)}, Op: "add", A: operand("#", "bottom"), B: operand("", "top")}
					}
					p.Ins = append(p.Ins, in)
				}
				p.StartKind, p.StartExpr = ref.StartOrg, toks("bottom")
				m, err := ref.Denote(p, cfg)
				if err != nil {
					rep.Count("c03:generator-skipped-ill-formed")
					continue
				}
				src, _ := Render(p, nil)
				c.checkSrc("C03", mkCase(p, m, cfg, src, fmt.Sprintf("long program, %d instructions", n)))
			}
		}
		rep.Bound += "; programs of 130, 260 and 300 instructions with label references spanning the whole program (distances beyond 127 and 255)"
	}

	// P2d: buffer boundaries: the first representative programs behind a comment
	// line of every length that puts one of their bytes at offset 4096 or 8192.
	for pi, rp := range representativePrograms()[:2] {
		cfg := cfgM(8000, rp.dialect)
		m, err := ref.Denote(rp.p, cfg)
		if err != nil {
			continue
		}
		src, _ := Render(rp.p, nil)
		for _, B := range []int{4096, 8192} {
			for pad := B - len(src) - 4; pad <= B+1; pad++ {
				if !c.mine() || c.expired() {
					continue
				}
				c.checkSrc("C03", mkCase(rp.p, m, cfg, ";"+strings.Repeat("x", pad-2)+"\n"+src, fmt.Sprintf("program %d behind a comment line of %d bytes", pi, pad)))
				rep.Count("c03:buffer-boundary-alignments")
			}
		}
	}
	rep.Bound += "; two representative programs behind a comment line of every length that puts any of their bytes at offset 4096 or 8192"

	// P2e: many symbols: 14 EQUs in a chain (each defined after its use) and 14 labels.
	if c.Sh.I == 1%c.Sh.N {
		for _, dialect := range []g.SimulatorMode{g.ICWS94, g.ICWS88} {
			cfg := cfgM(8000, dialect)
			p := baseMeta(&ref.AProg{})
			const n = 14
			for i := 0; i < n; i++ {
				body := fmt.Sprintf("e%d+l%d-l0+1", i+1, i)
				if i == n-1 {
					body = "3"
				}
				// definitions in reverse order of use: e0 uses e1 which is defined later
				p.Equs = append(p.Equs, ref.AEqu{Name: fmt.Sprintf("e%d", i), Body: toks(body)})
				p.Ins = append(p.Ins, ref.AIns{Labels: []string{fmt.Sprintf("l%d", i)}, Op: "mov", A: operand("", fmt.Sprintf("e%d", i)), B: operand("@", fmt.Sprintf("l%d-e%d", (i*5)%n, n-1-i))})
			}
			// a diamond: two EQUs that both use a third one (and each other's sum)
			p.Equs = append(p.Equs, ref.AEqu{Name: "da", Body: toks("dc+1")}, ref.AEqu{Name: "db", Body: toks("dc*2+da")}, ref.AEqu{Name: "dc", Body: toks("l3-l1")})
			p.Ins = append(p.Ins, ref.AIns{Op: "add", A: operand("#", "da+db"), B: operand("", "db-da-dc")}, ref.AIns{Op: "sub", A: operand("#", "dc"), B: operand("<", "da")})
			p.StartKind, p.StartExpr = ref.StartOrg, toks("l13")
			m, err := ref.Denote(p, cfg)
			if err != nil {
				rep.Count("c03:generator-skipped-ill-formed")
				continue
			}
			src, _ := Render(p, nil)
			c.checkSrc("C03", mkCase(p, m, cfg, src, "14 chained EQUs, an EQU diamond and 14 labels"))
			rep.Count("c03:many-symbol-programs")
		}
		rep.Bound += "; a program with 14 labels, 14 EQUs chained through each other and three EQUs in a diamond"
	}

	// P2f: metadata texts: blanks and tabs inside a name or author are part of
	// the text, blanks around it are not; long and non-ASCII texts
	if c.Sh.I == 2%c.Sh.N {
		texts := []string{"x", "Two  blanks", "tab\there", "three   blanks and\ta tab", "dots.and,commas:and-dashes", "UPPER lower 123", "größe und Ünïcödé",
			strings.Repeat("a long name ", 40) + "end", "ends with a digit 7", "1 starts with a digit", "equ for rof end org dat"}
		for ti, tx := range texts {
			for _, dialect := range []g.SimulatorMode{g.ICWS94, g.ICWS88} {
				cfg := cfgM(8000, dialect)
				p := &ref.AProg{Name: tx, Author: texts[(ti+3)%len(texts)], Strategy: []string{tx, "second  line\twith a tab"}}
				p.Ins = []ref.AIns{{Op: "mov", A: operand("", "0"), B: operand("", "1")}}
				m, err := ref.Denote(p, cfg)
				if err != nil {
					rep.Count("c03:generator-skipped-ill-formed")
					continue
				}
				src, _ := Render(p, nil)
				c.checkSrc("C03", mkCase(p, m, cfg, src, "metadata texts"))
				// the same with blanks around the texts (not part of them)
				src2 := strings.Replace(strings.Replace(src, ";name "+tx, ";name   "+tx+"  ", 1), ";author "+p.Author, ";author\t"+p.Author+" ", 1)
				c.checkSrc("C03", mkCase(p, m, cfg, src2, "metadata texts with blanks around them"))
				rep.Count("c03:metadata-texts")
			}
		}
		rep.Bound += "; 11 name / author / strategy texts (double blanks, tabs, punctuation, non-ASCII letters, 480 characters, keywords) bare and with blanks around them, both dialects"
	}

	// P3: renderings. Representative programs x every deviation set of size
	// <= 2 (quick: <= 1, and <= 2 for the first programs).
	reps := representativePrograms()
	for i, rp := range reps {
		if !c.mine() || c.expired() {
			continue
		}
		maxDev := 1
		if thorough || i < 3 {
			maxDev = 2
		}
		cfg := cfgM(8000, rp.dialect)
		c.allRenderings(rp.p, cfg, maxDev, fmt.Sprintf("rendering of program %d", i))
		if thorough {
			c.allRenderings(rp.p, cfgM(80, rp.dialect), 1, fmt.Sprintf("rendering of program %d", i))
		}
	}
	rep.Bound += fmt.Sprintf("; %d representative programs x every set of <=2 rendering deviations (quick: <=1 except the first 3) out of: case of a mnemonic/pseudo-op, blank/tab/removed gap, spaced expression, blank or comment line at any boundary, labels on their own lines, trailing comment, colon after a label, label respelling, EQU line moved", len(reps))
	if last != nil {
		rep.Sample(last.Src)
	}
}

type repProg struct {
	p       *ref.AProg
	dialect g.SimulatorMode
}

func representativePrograms() []repProg {
	var out []repProg
	add := func(d g.SimulatorMode, p *ref.AProg) { out = append(out, repProg{baseMeta(p), d}) }
	// 0: labels used forwards and backwards, EQU chain, ORG
	add(g.ICWS94, &ref.AProg{
		Equs: []ref.AEqu{{Name: "step", Body: toks("4")}, {Name: "dist", Body: toks("step*2+last")}},
		Ins: []ref.AIns{
			{Labels: []string{"top"}, Op: "add", Mod: "ab", A: operand("#", "step"), B: operand("", "ptr")},
			{Labels: []string{"ptr", "p2"}, Op: "mov", A: operand("", "last"), B: operand("@", "dist")},
			{Op: "jmp", A: operand("", "top")},
			{Labels: []string{"last"}, Op: "dat", A: operand("#", "0"), B: operand("#", "p2-top")},
		},
		StartKind: ref.StartOrg, StartExpr: toks("ptr"),
	})
	// 1: END with an expression, lone operands, predefined constants
	add(g.ICWS94, &ref.AProg{
		Equs: []ref.AEqu{{Name: "k", Body: toks("CORESIZE/4")}},
		Ins: []ref.AIns{
			{Labels: []string{"s"}, Op: "spl", A: operand("", "k")},
			{Op: "dat", A: operand("", "k-1")},
			{Labels: []string{"e"}, Op: "djn", Mod: "f", A: operand("<", "s"), B: operand("}", "-k")},
		},
		StartKind: ref.StartEnd, StartExpr: toks("e-1"),
	})
	// 2: '88 dwarf-like
	add(g.ICWS88, &ref.AProg{
		Equs: []ref.AEqu{{Name: "inc", Body: toks("4")}},
		Ins: []ref.AIns{
			{Labels: []string{"loop"}, Op: "add", A: operand("#", "inc"), B: operand("", "bomb")},
			{Op: "mov", A: operand("", "bomb"), B: operand("@", "bomb")},
			{Op: "jmp", A: operand("", "loop")},
			{Labels: []string{"bomb"}, Op: "dat", A: operand("#", "0"), B: operand("#", "0-inc")},
		},
		StartKind: ref.StartEnd, StartExpr: toks("loop"),
	})
	// 3: no EQUs, no directive, many labels on one instruction
	add(g.ICWS94, &ref.AProg{
		Ins: []ref.AIns{
			{Labels: []string{"l1", "l2", "l3"}, Op: "seq", A: operand("*", "l3+2"), B: operand("{", "l4")},
			{Op: "nop", A: operand("", "0")},
			{Labels: []string{"l4"}, Op: "mul", Mod: "x", A: operand(">", "l1"), B: operand("<", "l2-l4")},
		},
	})
	// 4: forward EQU referencing labels, ORG with a number
	add(g.ICWS94, &ref.AProg{
		Equs: []ref.AEqu{{Name: "gap", Body: toks("z-w")}, {Name: "twice", Body: toks("2*gap")}},
		Ins: []ref.AIns{
			{Labels: []string{"w"}, Op: "sub", A: operand("", "twice"), B: operand("", "gap")},
			{Op: "jmn", A: operand("", "w"), B: operand("", "z")},
			{Labels: []string{"z"}, Op: "mod", Mod: "ba", A: operand("#", "twice+gap"), B: operand("$", "-1")},
		},
		StartKind: ref.StartOrg, StartExpr: toks("1"),
	})
	// 5: '88 with jmz/djn/cmp/slt
	add(g.ICWS88, &ref.AProg{
		Equs: []ref.AEqu{{Name: "n", Body: toks("3")}},
		Ins: []ref.AIns{
			{Labels: []string{"t"}, Op: "cmp", A: operand("", "t+n"), B: operand("<", "u")},
			{Op: "slt", A: operand("#", "n*2"), B: operand("", "u")},
			{Labels: []string{"u"}, Op: "djn", A: operand("", "t"), B: operand("#", "n")},
			{Op: "jmz", A: operand("@", "u"), B: operand("", "t-1")},
		},
	})
	// 6: instructions without a B operand, a label alone before an EQU-valued operand, upper-case constants
	add(g.ICWS94, &ref.AProg{
		Equs: []ref.AEqu{{Name: "far", Body: toks("CORESIZE/2")}, {Name: "near", Body: toks("q-p")}},
		Ins: []ref.AIns{
			{Labels: []string{"p"}, Op: "jmp", A: operand("@", "near")},
			{Op: "spl", A: operand("", "far")},
			{Labels: []string{"q"}, Op: "dat", A: operand("", "near*far")},
			{Op: "nop", Mod: "f", A: operand("{", "p"), B: operand("}", "q")},
		},
		StartKind: ref.StartOrg, StartExpr: toks("q-1"),
	})
	// 7: one-instruction program with everything on it
	add(g.ICWS94, &ref.AProg{
		Equs: []ref.AEqu{{Name: "v", Body: toks("7")}},
		Ins: []ref.AIns{
			{Labels: []string{"only", "one"}, Op: "div", Mod: "x", A: operand("<", "v-only"), B: operand(">", "one+v")},
		},
		StartKind: ref.StartEnd, StartExpr: toks("only"),
	})
	// 8: '88 program with lone operands and an EQU naming a label difference
	add(g.ICWS88, &ref.AProg{
		Equs: []ref.AEqu{{Name: "len", Body: toks("last-first")}},
		Ins: []ref.AIns{
			{Labels: []string{"first"}, Op: "spl", A: operand("", "last")},
			{Op: "sub", A: operand("#", "len"), B: operand("@", "first")},
			{Op: "jmn", A: operand("", "first"), B: operand("<", "last")},
			{Labels: []string{"last"}, Op: "dat", A: operand("<", "len"), B: operand("#", "len+1")},
		},
		StartKind: ref.StartOrg, StartExpr: toks("first+1"),
	})
	// 9: labels that differ only in letter case, and one that looks like a number suffix
	add(g.ICWS94, &ref.AProg{
		Equs: []ref.AEqu{{Name: "Step", Body: toks("2")}, {Name: "step", Body: toks("5")}},
		Ins: []ref.AIns{
			{Labels: []string{"x"}, Op: "mov", A: operand("", "X"), B: operand("", "x+Step")},
			{Labels: []string{"X"}, Op: "add", A: operand("#", "step"), B: operand("", "x")},
			{Labels: []string{"x2"}, Op: "jmp", A: operand("", "X-x2"), B: operand("", "x2-x")},
		},
		StartKind: ref.StartEnd, StartExpr: toks("X"),
	})
	return out
}

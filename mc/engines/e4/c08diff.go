package e4

import (
	"encoding/json"
	"fmt"
	"strings"

	g "github.com/bobertlo/gmars"

	"verif/mc/hx"
	"verif/mc/ref"
)

// diffCase is a FOR program together with its manual unrolling as text: both
// are assembled by gmars and must agree (rejected or not, code, entry point,
// name, author, strategy). It is used for body lines the abstract programs do
// not model: comment lines with a meaning (;assert, ;name, ;author,
// ;strategy) inside a FOR body, which the unrolling repeats count times.
type diffCase struct {
	Cfg      [8]uint64 `json:"cfg"`
	Src      string    `json:"src"`
	Unrolled string    `json:"unrolled"`
	Note     string    `json:"note"`
}

func (d *diffCase) witness() string {
	b, _ := json.Marshal(d)
	return string(b)
}

func (c *Ctx) checkDiff(d *diffCase) {
	rep := c.Rep
	cfg := arrCfg(d.Cfg)
	if c.Only06 {
		c.check06(d.Src, cfg)
		c.check06(d.Unrolled, cfg)
		return
	}
	rep.States++
	w1, e1, p1 := c.compile("C08", d.Src, cfg)
	w2, e2, p2 := c.compile("C08", d.Unrolled, cfg)
	rep.Traces += 2
	fail := func(kind, detail string) {
		if rep.Hit("C08", kind) {
			rep.Add("C08", kind, d.witness(), detail)
		}
	}
	switch {
	case p1 != "" || p2 != "":
		fail("panic", p1+" / "+p2)
	case (e1 != nil) != (e2 != nil):
		fail("for-vs-unrolled-acceptance", fmt.Sprintf("FOR program: err=%v; unrolled program: err=%v", e1, e2))
	case e1 != nil:
		rep.Count("c08:differential-both-rejected")
	case hx.CoreStr(w1.Code) != hx.CoreStr(w2.Code) || w1.Start != w2.Start:
		fail("for-vs-unrolled-code", fmt.Sprintf("FOR program: %s start %d; unrolled: %s start %d", hx.CoreStr(w1.Code), w1.Start, hx.CoreStr(w2.Code), w2.Start))
	case w1.Name != w2.Name || w1.Author != w2.Author || strings.Join(ref.StrategyLines(w1.Strategy), "|") != strings.Join(ref.StrategyLines(w2.Strategy), "|"):
		fail("for-vs-unrolled-metadata", fmt.Sprintf("FOR program: name=%q author=%q strategy=%q; unrolled: name=%q author=%q strategy=%q", w1.Name, w1.Author, w1.Strategy, w2.Name, w2.Author, w2.Strategy))
	default:
		rep.Count("c08:differential-both-accepted")
	}
}

// runC08Comments enumerates bodies of up to three lines drawn from
// instructions and meaningful comment lines, counts 0..3, alone, after a
// prefix instruction and nested in an outer block of count 2.
func (c *Ctx) runC08Comments() {
	comments := []string{";assert 0", ";assert 1", ";assert 1/0", ";name inside", ";author somebody", ";strategy line", "; plain"}
	instr := []string{"dat i, 1", "mov i, i+1"}
	var lines []string
	lines = append(lines, comments...)
	lines = append(lines, instr...)
	cfg := cfgArr(cfgM(8000, g.ICWS94))
	unrollBody := func(body []string, counter string, n int) string {
		var sb strings.Builder
		for k := 1; k <= n; k++ {
			for _, l := range body {
				if strings.HasPrefix(l, ";") {
					sb.WriteString(l + "\n")
					continue
				}
				sb.WriteString(replaceCounter(l, counter, k) + "\n")
			}
		}
		return sb.String()
	}
	var bodies [][]string
	for _, a := range lines {
		bodies = append(bodies, []string{a})
		for _, b := range lines {
			bodies = append(bodies, []string{a, b})
			for _, x := range instr {
				bodies = append(bodies, []string{a, x, b})
			}
		}
	}
	for bi, body := range bodies {
		if !c.Sh.Mine(bi) || c.expired() {
			continue
		}
		for n := 0; n <= 3; n++ {
			blk := fmt.Sprintf("i for %d\n%s\nrof\n", n, strings.Join(body, "\n"))
			un := unrollBody(body, "i", n)
			c.checkDiff(&diffCase{Cfg: cfg, Src: blk + "dat 0, 0\n", Unrolled: un + "dat 0, 0\n", Note: "comment lines in a FOR body"})
			c.checkDiff(&diffCase{Cfg: cfg, Src: "spl 1, 2\n" + blk, Unrolled: "spl 1, 2\n" + un, Note: "comment lines in a FOR body, after an instruction"})
			if n <= 2 {
				// nested in an outer block of count 2 (the inner counter is i, the outer one j, unused)
				c.checkDiff(&diffCase{Cfg: cfg, Src: "j for 2\n" + blk + "rof\ndat 0, 0\n", Unrolled: un + un + "dat 0, 0\n", Note: "comment lines in a nested FOR body"})
			}
		}
	}
	c.Rep.Bound += "; FOR program against its textual unrolling (both assembled): bodies of 1..3 lines over 2 instructions and 7 comment lines (;assert 0 / 1 / 1/0, ;name, ;author, ;strategy, plain), counts 0..3, alone, after an instruction, nested in a block of count 2"
}

// replaceCounter replaces the identifier counter by k in an instruction line.
func replaceCounter(line, counter string, k int) string {
	var sb strings.Builder
	i := 0
	isId := func(b byte) bool {
		return b == '_' || (b >= 'a' && b <= 'z') || (b >= 'A' && b <= 'Z') || (b >= '0' && b <= '9')
	}
	for i < len(line) {
		if isId(line[i]) {
			j := i
			for j < len(line) && isId(line[j]) {
				j++
			}
			if line[i:j] == counter {
				sb.WriteString(fmt.Sprint(k))
			} else {
				sb.WriteString(line[i:j])
			}
			i = j
			continue
		}
		sb.WriteByte(line[i])
		i++
	}
	return sb.String()
}

func (c *Ctx) replayDiff(wit string) error {
	var d diffCase
	if err := json.Unmarshal([]byte(wit), &d); err != nil {
		return err
	}
	c.checkDiff(&d)
	return nil
}

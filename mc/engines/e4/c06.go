package e4

import (
	"fmt"
	"strings"

	g "github.com/bobertlo/gmars"

	"verif/mc/hx"
	"verif/mc/ref"
)

// Pred06 is the structural predicate every accepted program must satisfy. It
// returns the name of the violated clause ("" = holds).
func Pred06(w g.WarriorData, cfg g.SimulatorConfig) (string, string) {
	M := uint64(cfg.CoreSize)
	for i, x := range w.Code {
		if uint64(x.A) >= M || uint64(x.B) >= M {
			return "field-range", fmt.Sprintf("instruction %d = %s has a field >= %d", i, hx.InsStr(x), M)
		}
		if x.Op > g.NOP || x.OpMode > g.I || x.AMode > g.B_INCREMENT || x.BMode > g.B_INCREMENT {
			return "undefined-enum-value", fmt.Sprintf("instruction %d = %+v", i, x)
		}
		if cfg.Mode == g.ICWS88 {
			md, ok := ref.Legal88(x.Op, x.AMode, x.BMode)
			if !ok {
				return "illegal-88-instruction", fmt.Sprintf("instruction %d = %s is not a legal ICWS'88 instruction", i, hx.InsStr(x))
			}
			if md != x.OpMode {
				return "wrong-88-modifier", fmt.Sprintf("instruction %d = %s, ICWS'88 implies modifier %s", i, hx.InsStr(x), md)
			}
		}
	}
	if len(w.Code) == 0 {
		if w.Start != 0 {
			return "entry-point", fmt.Sprintf("empty program with entry point %d", w.Start)
		}
	} else if w.Start < 0 || w.Start >= len(w.Code) {
		return "entry-point", fmt.Sprintf("entry point %d outside the %d instructions", w.Start, len(w.Code))
	}
	if uint64(len(w.Code)) > uint64(cfg.Length) {
		return "length-limit", fmt.Sprintf("%d instructions accepted under a maximum length of %d", len(w.Code), cfg.Length)
	}
	return "", ""
}

// check06 compiles src and evaluates the predicate when assembling succeeds.
func (c *Ctx) check06(src string, cfg g.SimulatorConfig) {
	rep := c.Rep
	rep.States++
	w, err, pan := c.compile("C06", src, cfg)
	if pan != "" {
		if rep.Hit("C06", "panic") {
			rep.Add("C06", "panic", witnessSrc(src, cfg), pan)
		}
		return
	}
	if err != nil {
		rep.Count("c06:rejected-inputs")
		return
	}
	rep.Traces++
	rep.Count("c06:accepted-inputs")
	if cfg.Mode == g.ICWS88 {
		rep.Count("c06:accepted-under-icws88")
	}
	if kind, detail := Pred06(w, cfg); kind != "" {
		if rep.Hit("C06", kind) {
			rep.Add("C06", kind, witnessSrc(src, cfg), detail)
		}
	}
}

func (c *Ctx) replay06(wit string) error {
	src, cfg, err := ParseWitnessSrc(wit)
	if err != nil {
		return err
	}
	c.check06(src, cfg)
	return nil
}

// RunC06 evaluates the predicate over the C03 and C08 input spaces (every
// success among them) and over targeted grids around each range check.
func (c *Ctx) RunC06(tier string) {
	thorough := tier == "thorough"
	rep := c.Rep
	// 1. the C03 and C08 spaces, predicate only
	c.Only06 = true
	c.RunC03(tier)
	b3 := rep.Bound
	c.RunC08(tier)
	b8 := rep.Bound
	c.Only06 = false
	rep.Samples = nil
	rep.Bound = "every success among the C03 space [" + b3 + "] and the C08 space [" + b8 + "]"

	// 2. ORG k / END k around the program length
	for _, M := range []uint64{8000, 80} {
		for _, mode := range []g.SimulatorMode{g.ICWS94, g.ICWS88} {
			cfg := cfgM(M, mode)
			for n := 0; n <= 3; n++ {
				body := strings.Repeat("mov 0, 1\n", n)
				ks := []string{"-1", "0", fmt.Sprint(n - 1), fmt.Sprint(n), fmt.Sprint(n + 1), "CORESIZE", "CORESIZE+1", "CORESIZE-1", "0-CORESIZE"}
				for _, k := range ks {
					if !c.mine() {
						continue
					}
					c.check06("org "+k+"\n"+body, cfg)
					c.check06(body+"end "+k+"\n", cfg)
					c.check06(body+"org "+k+"\n", cfg)
					c.check06("x equ "+k+"\norg x\n"+body, cfg)
					if n > 0 {
						c.check06("org last+("+k+")-"+fmt.Sprint(n-1)+"\n"+strings.Repeat("mov 0, 1\n", n-1)+"last mov 0, 1\n", cfg)
					}
					// a label on the END line names the address after the last instruction
					c.check06("org fin\n"+body+"fin end\n", cfg)
					c.check06(body+"fin end fin\n", cfg)
					c.check06("org fin+("+k+")-"+fmt.Sprint(n)+"\n"+body+"fin end\n", cfg)
					c.check06(body+"fin end fin-1\n", cfg)
				}
			}
		}
	}
	rep.Bound += "; ORG/END k for k in {-1,0,len-1,len,len+1,M-1,M,M+1,-M} x len 0..3 x 5 spellings x both dialects x M in {8000,80}"

	// 3. program lengths around the configured maximum
	for _, L := range []uint64{1, 2, 5, 20} {
		for _, mode := range []g.SimulatorMode{g.ICWS94, g.ICWS88} {
			cfg := g.SimulatorConfig{Mode: mode, CoreSize: 8000, Processes: 8, Cycles: 100, ReadLimit: 8000, WriteLimit: 8000, Length: g.Address(L), Distance: g.Address(L)}
			for n := uint64(0); n <= L+2; n++ {
				if !c.mine() {
					continue
				}
				c.check06(strings.Repeat("mov 0, 1\n", int(n)), cfg)
				c.check06(fmt.Sprintf("i for %d\nmov 0, i\nrof\n", n), cfg)
				c.check06(fmt.Sprintf("mov 0, 1\ni for %d-1\nmov 0, i\nrof\n", n), cfg)
				c.check06(fmt.Sprintf("i for MAXLENGTH+%d-%d\nmov 0, i\nrof\n", n, L), cfg)
				// entry point given before code that only a FOR produces
				for _, k := range []int{-1, 0, int(n) - 1, int(n), int(n) + 1} {
					c.check06(fmt.Sprintf("org %d\ni for %d\nmov 0, i\nrof\n", k, n), cfg)
					c.check06(fmt.Sprintf("i for %d\nmov 0, i\nrof\nend %d\n", n, k), cfg)
					c.check06(fmt.Sprintf("org last\ni for %d\nmov 0, i\nrof\nlast end %d\n", n, k), cfg)
				}
			}
		}
	}
	rep.Bound += "; program lengths 0..L+2 for maximum length L in {1,2,5,20}, written out and through FOR, both dialects"

	// 4. ICWS'88: every opcode x modifier {none, .i, .f} x 8 x 8 modes, alone and inside a 3-line program
	cfg88 := cfgM(8000, g.ICWS88)
	mods := []string{"", ".i", ".f"}
	if !thorough {
		mods = mods[:2]
	}
	for _, op := range ref.OpList {
		for _, md := range mods {
			if !c.mine() || c.expired() {
				continue
			}
			for _, am := range append([]string{""}, ref.ModeList...) {
				for _, bm := range append([]string{"", "-"}, ref.ModeList...) {
					line := op + md + " " + am + "2"
					if bm != "-" {
						line += ", " + bm + "3"
					}
					c.check06(line+"\n", cfg88)
					c.check06("start mov 0, 1\n"+line+"\njmp start\n", cfg88)
					c.check06(strings.ToUpper(line)+"\n", cfg88)
					if thorough {
						c.check06("x equ 2\n"+op+md+" "+am+"x, "+bm+"x\nend\n", cfg88)
					}
				}
			}
		}
	}
	rep.Bound += "; under ICWS'88 every opcode (17) x modifier {none,.i,.f} x A-mode (absent or 8) x B operand (absent, mode absent or 8), alone and inside a 3-line program"

	// 4c. ICWS'88: every ordered pair of lines with the same opcode (whatever the
	// assembler remembers from one line must not excuse the next)
	for _, op := range ref.OpList {
		if !c.mine() || c.expired() {
			continue
		}
		var lines []string
		for _, am := range append([]string{""}, ref.ModeList...) {
			for _, bm := range append([]string{"", "-"}, ref.ModeList...) {
				line := op + " " + am + "2"
				if bm != "-" {
					line += ", " + bm + "3"
				}
				lines = append(lines, line)
			}
		}
		for _, l1 := range lines {
			for _, l2 := range lines {
				c.check06(l1+"\n"+l2+"\n", cfg88)
				c.Rep.Count("c06:two-line-88-programs")
			}
		}
	}
	rep.Bound += "; under ICWS'88 every ordered pair of lines with the same opcode over A-mode (absent or 8) x B operand (absent, mode absent or 8)"

	// 4b. EQU bodies that carry an addressing-mode character: whatever the assembler makes of
	// them, an accepted result must be legal in the dialect
	for _, dialect := range []g.SimulatorMode{g.ICWS88, g.ICWS94} {
		cfg := cfgM(8000, dialect)
		for _, op := range ref.OpList {
			if !c.mine() {
				continue
			}
			for _, md := range ref.ModeList {
				for _, other := range []string{"", "#", "$", "@", "<"} {
					c.check06("v equ "+md+"3\n"+op+" v, "+other+"1\n", cfg)
					c.check06("v equ "+md+"3\n"+op+" "+other+"1, v\n", cfg)
					c.check06("v equ "+md+"3\nw equ v\n"+op+" w\n", cfg)
					c.check06("v equ "+md+" 3 , "+other+"4\n"+op+" v\n", cfg)
				}
			}
		}
	}
	rep.Bound += "; EQU bodies beginning with each of the 8 mode characters (also chained, also carrying a comma and a second operand) used as A or B operand of every opcode, both dialects"

	// 5. fields: huge and negative literals must come out reduced
	for _, M := range []uint64{7, 80, 8000, 8192} {
		if !c.mine() {
			continue
		}
		for _, mode := range []g.SimulatorMode{g.ICWS94, g.ICWS88} {
			cfg := cfgM(M, mode)
			for _, v := range []string{"2147483647", "-2147483647", "CORESIZE", "CORESIZE*2+1", "-CORESIZE", "-1", "0-CORESIZE-1", "2147483647-CORESIZE"} {
				c.check06("mov "+v+", "+v+"\n", cfg)
				c.check06("dat #"+v+", #"+v+"\n", cfg)
				c.check06("jmp "+v+"\n", cfg)
			}
		}
	}
	rep.Bound += "; extreme and negative literals in both fields under 4 core sizes"
	rep.Sample("org 3\\nmov 0, 1\\nmov 0, 1\\nmov 0, 1\\n")
	rep.Sample("mov }2, *3   (under ICWS'88)")
}

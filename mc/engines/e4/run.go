package e4

import (
	"fmt"
	"strings"
)

// Run dispatches on the property.
func (c *Ctx) Run(prop, tier string) {
	switch prop {
	case "C07":
		c.RunC07(tier)
	case "C03":
		c.RunC03(tier)
	case "C08":
		c.RunC08(tier)
	case "C06":
		c.RunC06(tier)
	default:
		c.Rep.Note("engine e4 has no space for " + prop)
	}
}

// Replay re-executes one witness.
func (c *Ctx) Replay(prop, wit string) error {
	switch prop {
	case "C07":
		return c.ReplayC07(wit)
	case "C03", "C08":
		if prop == "C08" && strings.Contains(wit, "\"unrolled\"") {
			return c.replayDiff(wit)
		}
		return c.replaySrc(prop, wit)
	case "C06":
		return c.replay06(wit)
	}
	return fmt.Errorf("no replay for %s", prop)
}

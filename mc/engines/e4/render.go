package e4

import (
	"fmt"
	"strings"

	"verif/mc/ref"
)

// Dev is one rendering deviation from the default surface form.
type Dev struct {
	Kind string // case gap exprsp insert lblnl trail colon respell equmove
	T1   int    // target: logical line / boundary / label number / equ number
	T2   int    // sub-target: gap number, operand number
	V    int    // variant
}

func (d Dev) String() string { return fmt.Sprintf("%s(%d,%d,%d)", d.Kind, d.T1, d.T2, d.V) }

func (d Dev) site() string { return fmt.Sprintf("%s/%d/%d", d.Kind, d.T1, d.T2) }

// logical line kinds
const (
	lMeta = iota
	lOrg
	lEqu
	lIns
	lEnd
)

type lline struct {
	kind int
	idx  int // index into Equs / Ins / meta
}

// label spellings: ordinary ones, ones that begin or end like opcodes and
// pseudo-ops, and a predefined constant in lower case
var respellings = []string{"a", "x1", "_t", "Loop", "i", "imp_2", "mover", "end1", "format", "data", "rofl", "equal", "org2", "coresize", "dat_1", "jmpx", "a_label_name_that_goes_on_for_quite_a_while_and_then_some_more_0123456789",
	// letters outside ASCII, among them ones whose upper-case form is an ASCII letter (a label is not a mnemonic)
	"größe", "ſub", "dıv", "ſpl", "dİv"}

// layout lists the logical lines in default order.
func layout(p *ref.AProg) []lline {
	var ls []lline
	nMeta := 2 + len(p.Strategy)
	for i := 0; i < nMeta; i++ {
		ls = append(ls, lline{lMeta, i})
	}
	if p.StartKind == ref.StartOrg {
		ls = append(ls, lline{lOrg, 0})
	}
	for i := range p.Equs {
		ls = append(ls, lline{lEqu, i})
	}
	for i := range p.Ins {
		ls = append(ls, lline{lIns, i})
	}
	if p.StartKind == ref.StartEnd {
		ls = append(ls, lline{lEnd, 0})
	}
	return ls
}

func allLabels(p *ref.AProg) []string {
	var out []string
	for _, in := range p.Ins {
		out = append(out, in.Labels...)
	}
	return out
}

// Sites enumerates every single deviation applicable to p.
func Sites(p *ref.AProg) []Dev {
	var out []Dev
	ls := layout(p)
	for li, l := range ls {
		switch l.kind {
		case lOrg, lEqu, lIns, lEnd:
			out = append(out, Dev{"case", li, 0, 0}, Dev{"case", li, 0, 1})
		}
		if l.kind == lIns {
			in := p.Ins[l.idx]
			gaps := []int{0, 2, 5}
			if len(in.Labels) > 0 {
				gaps = append(gaps, 1)
			}
			if in.B.Present {
				gaps = append(gaps, 3, 4)
			}
			for _, gp := range gaps {
				for v := 0; v < 3; v++ { // 0 extra blank, 1 tab, 2 remove
					if v == 2 && !(gp == 4 || (gp == 2 && in.A.Mode != "")) {
						continue
					}
					out = append(out, Dev{"gap", li, gp, v})
				}
			}
			out = append(out, Dev{"exprsp", li, 0, 0})
			if in.B.Present {
				out = append(out, Dev{"exprsp", li, 1, 0})
			}
			if len(in.Labels) > 0 {
				out = append(out, Dev{"lblnl", li, 0, 0}, Dev{"lblnl", li, 0, 1}, Dev{"lblnl", li, 0, 2})
			}
		}
		if l.kind == lEqu || l.kind == lOrg || l.kind == lEnd {
			for _, gp := range []int{0, 2, 5} {
				out = append(out, Dev{"gap", li, gp, 0}, Dev{"gap", li, gp, 1})
			}
			if l.kind == lEqu {
				out = append(out, Dev{"gap", li, 1, 0}, Dev{"gap", li, 1, 1})
			}
			out = append(out, Dev{"exprsp", li, 0, 0})
		}
		if l.kind != lMeta {
			out = append(out, Dev{"trail", li, 0, 0}, Dev{"trail", li, 0, 1}, Dev{"trail", li, 0, 2}, Dev{"trail", li, 0, 3})
		}
	}
	for b := 0; b <= len(ls); b++ {
		if p.StartKind == ref.StartEnd && b == len(ls) {
			// after END everything is ignored; still legal
		}
		for v := 0; v < 5; v++ {
			out = append(out, Dev{"insert", b, 0, v})
		}
	}
	labs := allLabels(p)
	for i := range labs {
		out = append(out, Dev{"colon", i, 0, 0})
		for v := range respellings {
			out = append(out, Dev{"respell", i, 0, v})
		}
	}
	for e := range p.Equs {
		for s := 1; s <= len(p.Ins); s++ {
			out = append(out, Dev{"equmove", e, 0, s})
		}
	}
	return out
}

func renameTokens(toks []string, from, to string) []string {
	out := make([]string, len(toks))
	for i, t := range toks {
		if t == from {
			out[i] = to
		} else {
			out[i] = t
		}
	}
	return out
}

func copyProg(p *ref.AProg) *ref.AProg {
	q := *p
	q.Equs = make([]ref.AEqu, len(p.Equs))
	for i, e := range p.Equs {
		q.Equs[i] = ref.AEqu{Name: e.Name, Body: append([]string{}, e.Body...)}
	}
	q.Ins = make([]ref.AIns, len(p.Ins))
	for i, in := range p.Ins {
		c := in
		c.Labels = append([]string{}, in.Labels...)
		c.A.Expr = append([]string{}, in.A.Expr...)
		c.B.Expr = append([]string{}, in.B.Expr...)
		q.Ins[i] = c
	}
	q.StartExpr = append([]string{}, p.StartExpr...)
	return &q
}

func mixCase(s string, v int) string {
	if v == 0 {
		return strings.ToUpper(s)
	}
	// mixed: first letter of every dot-separated part upper
	parts := strings.Split(s, ".")
	for i, p := range parts {
		if p != "" {
			parts[i] = strings.ToUpper(p[:1]) + p[1:]
		}
	}
	return strings.Join(parts, ".")
}

func gapText(def string, v int, has bool) string {
	if !has {
		return def
	}
	switch v {
	case 0:
		return def + " "
	case 1:
		return "\t"
	default:
		return ""
	}
}

// Render writes the program text with the given deviations applied. It
// returns ok=false when the deviation set is not applicable (two deviations
// on one site, a respelling that collides with another name).
func Render(p0 *ref.AProg, devs []Dev) (string, bool) {
	seen := map[string]bool{}
	for _, d := range devs {
		if seen[d.site()] {
			return "", false
		}
		seen[d.site()] = true
	}
	p := copyProg(p0)
	labs := allLabels(p)
	colon := map[string]bool{}
	for _, d := range devs {
		switch d.Kind {
		case "respell":
			from, to := labs[d.T1], respellings[d.V]
			if from == to {
				return "", false
			}
			for _, l := range allLabels(p) {
				if l == to {
					return "", false
				}
			}
			for _, e := range p.Equs {
				if e.Name == to {
					return "", false
				}
			}
			for i := range p.Ins {
				p.Ins[i].Labels = renameTokens(p.Ins[i].Labels, from, to)
				p.Ins[i].A.Expr = renameTokens(p.Ins[i].A.Expr, from, to)
				p.Ins[i].B.Expr = renameTokens(p.Ins[i].B.Expr, from, to)
			}
			for i := range p.Equs {
				p.Equs[i].Body = renameTokens(p.Equs[i].Body, from, to)
			}
			p.StartExpr = renameTokens(p.StartExpr, from, to)
			if colon[from] {
				colon[to] = true
			}
			labs = allLabels(p)
		}
	}
	for _, d := range devs {
		if d.Kind == "colon" {
			colon[allLabels(p)[d.T1]] = true
		}
	}
	ls := layout(p)
	find := func(kind string, li, t2 int) (int, bool) {
		for _, d := range devs {
			if d.Kind == kind && d.T1 == li && d.T2 == t2 {
				return d.V, true
			}
		}
		return 0, false
	}
	expr := func(toks []string, li, which int) string {
		if _, ok := find("exprsp", li, which); ok {
			return strings.Join(toks, " ")
		}
		return strings.Join(toks, "")
	}
	text := make([]string, len(ls)) // physical text of each logical line (may hold several physical lines)
	for li, l := range ls {
		gp := func(n int, def string) string {
			v, has := find("gap", li, n)
			return gapText(def, v, has)
		}
		word := func(w string) string {
			if v, ok := find("case", li, 0); ok {
				return mixCase(w, v)
			}
			return w
		}
		var sb strings.Builder
		switch l.kind {
		case lMeta:
			switch {
			case l.idx == 0:
				sb.WriteString(";name " + p.Name)
			case l.idx == 1:
				sb.WriteString(";author " + p.Author)
			default:
				sb.WriteString(";strategy " + p.Strategy[l.idx-2])
			}
		case lOrg, lEnd:
			w := "org"
			if l.kind == lEnd {
				w = "end"
			}
			sb.WriteString(gp(0, "") + word(w) + gp(2, " ") + expr(p.StartExpr, li, 0) + gp(5, ""))
		case lEqu:
			e := p.Equs[l.idx]
			sb.WriteString(gp(0, "") + e.Name + gp(1, " ") + word("equ") + gp(2, " ") + expr(e.Body, li, 0) + gp(5, ""))
		case lIns:
			in := p.Ins[l.idx]
			sb.WriteString(gp(0, ""))
			if len(in.Labels) > 0 {
				var ll []string
				for _, lb := range in.Labels {
					if colon[lb] {
						lb += ":"
					}
					ll = append(ll, lb)
				}
				sep := gp(1, " ")
				if v, ok := find("lblnl", li, 0); ok {
					switch v {
					case 0:
						sb.WriteString(strings.Join(ll, " ") + "\n")
					case 1:
						sb.WriteString(strings.Join(ll, " ") + "\n;c\n\n")
					default:
						sb.WriteString(strings.Join(ll, "\n") + "\n")
					}
					sep = ""
				} else {
					sb.WriteString(strings.Join(ll, " "))
				}
				sb.WriteString(sep)
			}
			op := in.Op
			if in.Mod != "" {
				op += "." + in.Mod
			}
			sb.WriteString(word(op) + gp(2, " ") + in.A.Mode + expr(in.A.Expr, li, 0))
			if in.B.Present {
				sb.WriteString(gp(3, "") + "," + gp(4, " ") + in.B.Mode + expr(in.B.Expr, li, 1))
			}
			sb.WriteString(gp(5, ""))
		}
		if v, ok := find("trail", li, 0); ok {
			switch v {
			case 0:
				sb.WriteString(" ; c")
			case 1:
				sb.WriteString(";c")
			case 2:
				sb.WriteString(" ; see ;assert 0 and ;name X ;author Y, end org equ")
			default:
				sb.WriteString(" ;\xff\x00\x1a odd bytes")
			}
		}
		text[li] = sb.String()
	}
	// physical order: default, with moved EQUs relocated before instruction slot s
	order := make([]int, 0, len(ls))
	moved := map[int]int{} // equ index -> slot
	for _, d := range devs {
		if d.Kind == "equmove" {
			moved[d.T1] = d.V
		}
	}
	firstIns := -1
	for li, l := range ls {
		if l.kind == lIns && firstIns < 0 {
			firstIns = li
		}
	}
	for li, l := range ls {
		if l.kind == lEqu {
			if _, ok := moved[l.idx]; ok {
				continue
			}
		}
		order = append(order, li)
		if l.kind == lIns {
			// EQUs moved to the slot after this instruction
			for ei := range p.Equs {
				if s, ok := moved[ei]; ok && s == l.idx+1 {
					for lj, m := range ls {
						if m.kind == lEqu && m.idx == ei {
							order = append(order, lj)
						}
					}
				}
			}
		}
	}
	var out strings.Builder
	ins := func(b int) {
		for _, d := range devs {
			if d.Kind == "insert" && d.T1 == b {
				switch d.V {
				case 0:
					out.WriteString("\n")
				case 1:
					out.WriteString(";c\n")
				case 3:
					out.WriteString("; a comment with ;assert 0 inside, and mov 0, 1\n")
				case 4:
					out.WriteString("  \t \r\n")
				default:
					out.WriteString("\n\n")
				}
			}
		}
	}
	for pos, li := range order {
		ins(pos)
		out.WriteString(text[li])
		out.WriteString("\n")
	}
	ins(len(order))
	return out.String(), true
}

// Package e4 holds the assembler-side engines: grammar-directed exhaustive
// generation of expressions (C07), abstract programs and their renderings
// (C03), FOR/ROF structures (C08) and the accepted-output predicate (C06).
package e4

import (
	"fmt"
	"math/big"
	"strings"
	"time"

	g "github.com/bobertlo/gmars"
)

// Node is an expression AST node. Op == 0 is a literal leaf.
type Node struct {
	Op    byte // 0, '+', '-', '*', '/', '%'
	L, R  *Node
	Val   int64
	Signs string // unary sign run written in front of the operand
	Wraps int    // redundant parenthesis pairs around the operand (inside the sign run)
	Name  string // when non-empty the leaf is written as this name (EQU or predefined constant)
	Lead  int    // leading zeros written in front of a literal (007)
}

func prec(op byte) int {
	switch op {
	case '+', '-':
		return 1
	case '*', '/', '%':
		return 2
	}
	return 3
}

// Render writes the expression; sp inserts a blank between all tokens.
func (n *Node) Render(sp bool) string {
	var toks []string
	n.tokens(&toks, 0, false)
	if sp {
		return strings.Join(toks, " ")
	}
	return strings.Join(toks, "")
}

// tokens appends the token list. minPrec/right say what the context demands
// so that necessary parentheses are inserted.
func (n *Node) tokens(out *[]string, minPrec int, rightOperand bool) {
	for _, s := range n.Signs {
		*out = append(*out, string(s))
	}
	need := false
	if n.Op != 0 {
		p := prec(n.Op)
		if len(n.Signs) > 0 || p < minPrec || (p == minPrec && rightOperand) {
			need = true
		}
	}
	w := n.Wraps
	if need {
		w++
	}
	for i := 0; i < w; i++ {
		*out = append(*out, "(")
	}
	if n.Op == 0 {
		if n.Name != "" {
			*out = append(*out, n.Name)
		} else {
			*out = append(*out, strings.Repeat("0", n.Lead)+fmt.Sprintf("%d", n.Val))
		}
	} else {
		inner := prec(n.Op)
		if w > 0 {
			// inside parentheses the context is reset
		}
		n.L.tokens(out, inner, false)
		*out = append(*out, string(n.Op))
		n.R.tokens(out, inner, true)
	}
	for i := 0; i < w; i++ {
		*out = append(*out, ")")
	}
}

// Eval computes the exact value; ok is false for a zero divisor.
func (n *Node) Eval() (v *big.Int, ok bool) {
	if n.Op == 0 {
		v = big.NewInt(n.Val)
	} else {
		l, ok1 := n.L.Eval()
		r, ok2 := n.R.Eval()
		if !ok1 || !ok2 {
			return nil, false
		}
		switch n.Op {
		case '+':
			v = new(big.Int).Add(l, r)
		case '-':
			v = new(big.Int).Sub(l, r)
		case '*':
			v = new(big.Int).Mul(l, r)
		case '/':
			if r.Sign() == 0 {
				return nil, false
			}
			v = new(big.Int).Quo(l, r)
		case '%':
			if r.Sign() == 0 {
				return nil, false
			}
			v = new(big.Int).Rem(l, r)
		}
	}
	neg := strings.Count(n.Signs, "-")%2 == 1
	if neg {
		v = new(big.Int).Neg(v)
	}
	return v, true
}

// Operands lists the nodes that can carry a sign run / wraps, in render order.
func (n *Node) Operands(out *[]*Node) {
	*out = append(*out, n)
	if n.Op != 0 {
		n.L.Operands(out)
		n.R.Operands(out)
	}
}

var binOps = []byte{'+', '-', '*', '/', '%'}

// Shapes enumerates every tree shape with k binary operators, every operator
// assignment and every leaf assignment from leaves, calling f on each tree.
// The tree is reused between calls (f must not keep it).
func Shapes(k int, leaves []int64, f func(root *Node)) {
	var build func(k int) []*Node
	// build returns structurally distinct trees with k operators (ops/leaves unset)
	build = func(k int) []*Node {
		if k == 0 {
			return []*Node{{}}
		}
		var out []*Node
		for l := 0; l < k; l++ {
			for _, lt := range build(l) {
				for _, rt := range build(k - 1 - l) {
					out = append(out, &Node{Op: '+', L: clone(lt), R: clone(rt)})
				}
			}
		}
		return out
	}
	for _, t := range build(k) {
		var inner, leaf []*Node
		var walk func(n *Node)
		walk = func(n *Node) {
			if n.Op == 0 {
				leaf = append(leaf, n)
			} else {
				inner = append(inner, n)
				walk(n.L)
				walk(n.R)
			}
		}
		walk(t)
		var setOps func(i int)
		var setLeaves func(i int)
		setLeaves = func(i int) {
			if i == len(leaf) {
				f(t)
				return
			}
			for _, v := range leaves {
				leaf[i].Val = v
				setLeaves(i + 1)
			}
		}
		setOps = func(i int) {
			if i == len(inner) {
				setLeaves(0)
				return
			}
			for _, op := range binOps {
				inner[i].Op = op
				setOps(i + 1)
			}
		}
		setOps(0)
	}
}

func clone(n *Node) *Node {
	if n == nil {
		return nil
	}
	c := *n
	c.L, c.R = clone(n.L), clone(n.R)
	return &c
}

// compile runs CompileWarrior with a watchdog and panic recovery.
type compileResult struct {
	W     g.WarriorData
	Err   error
	Panic string
	Hung  bool
}

func Compile(src string, cfg g.SimulatorConfig) compileResult {
	done := make(chan compileResult, 1)
	go func() {
		var r compileResult
		defer func() {
			if p := recover(); p != nil {
				r.Panic = fmt.Sprint(p)
			}
			done <- r
		}()
		r.W, r.Err = g.CompileWarrior(strings.NewReader(src), cfg)
	}()
	timer := time.NewTimer(30 * time.Second)
	defer timer.Stop() // (time.After would keep every timer alive for its whole period)
	select {
	case r := <-done:
		return r
	case <-timer.C:
		return compileResult{Hung: true}
	}
}

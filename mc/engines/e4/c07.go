package e4

import (
	"fmt"
	"math/big"
	"strings"
	"time"

	g "github.com/bobertlo/gmars"

	"verif/mc/hx"
	"verif/mc/ref"
)

// Ctx bundles what an engine run needs.
type Ctx struct {
	Rep      *hx.Report
	Sh       hx.Shard
	Deadline time.Time
	WD       *hx.Watchdog
	stop     bool
	unit     int
	Only06   bool // evaluate only the C06 predicate on the generated sources
}

func (c *Ctx) expired() bool {
	if c.stop {
		return true
	}
	if !c.Deadline.IsZero() && time.Now().After(c.Deadline) {
		c.stop = true
		c.Rep.Exhaustive = false
		c.Rep.Note("tier time cap reached; the enumeration was cut short")
	}
	return c.stop
}

// mine: round-robin sharding over a running unit counter.
func (c *Ctx) mine() bool {
	c.unit++
	return c.Sh.Mine(c.unit)
}

// compile calls CompileWarrior under the watchdog with panic recovery.
func (c *Ctx) compile(prop, src string, cfg g.SimulatorConfig) (w g.WarriorData, err error, panicked string) {
	c.WD.Begin(prop, "does-not-return", func() string { return witnessSrc(src, cfg) })
	defer c.WD.End()
	defer func() {
		if p := recover(); p != nil {
			panicked = fmt.Sprint(p)
		}
	}()
	c.Rep.Transitions++
	w, err = g.CompileWarrior(strings.NewReader(src), cfg)
	return
}

func witnessSrc(src string, cfg g.SimulatorConfig) string {
	return fmt.Sprintf("cfg=%d,%d,%d,%d,%d,%d,%d,%d src=%q", cfg.Mode, cfg.CoreSize, cfg.Processes, cfg.Cycles, cfg.ReadLimit, cfg.WriteLimit, cfg.Length, cfg.Distance, src)
}

// ParseWitnessSrc parses witnessSrc output.
func ParseWitnessSrc(w string) (string, g.SimulatorConfig, error) {
	var cfg g.SimulatorConfig
	var mode int
	var src string
	i := strings.Index(w, " src=")
	if i < 0 {
		return "", cfg, fmt.Errorf("bad witness")
	}
	if _, err := fmt.Sscanf(w[:i], "cfg=%d,%d,%d,%d,%d,%d,%d,%d", &mode, &cfg.CoreSize, &cfg.Processes, &cfg.Cycles, &cfg.ReadLimit, &cfg.WriteLimit, &cfg.Length, &cfg.Distance); err != nil {
		return "", cfg, err
	}
	cfg.Mode = g.SimulatorMode(mode)
	if _, err := fmt.Sscanf(w[i+5:], "%q", &src); err != nil {
		return "", cfg, err
	}
	return src, cfg, nil
}

func cfgM(M uint64, mode g.SimulatorMode) g.SimulatorConfig {
	l := uint64(100)
	if M < 400 {
		l = M / 2
	}
	return g.SimulatorConfig{Mode: mode, CoreSize: g.Address(M), Processes: 8, Cycles: 100, ReadLimit: g.Address(M), WriteLimit: g.Address(M), Length: g.Address(l), Distance: g.Address(l)}
}

const bigM = uint64(1) << 34

// Expect describes the expected outcome of one C07 case.
type c07case struct {
	Src  string
	Cfg  g.SimulatorConfig
	Kind string // operand | for | org | assert | const
	// expected
	WantErr bool
	Fields  [][2]uint64 // expected (A,B) per instruction
	Start   int
}

func (c *Ctx) runC07(k *c07case) {
	rep := c.Rep
	rep.States++
	w, err, pan := c.compile("C07", k.Src, k.Cfg)
	rep.Traces++
	fail := func(kind, detail string) {
		if rep.Hit("C07", kind) {
			rep.Add("C07", kind, "kind="+k.Kind+" "+witnessSrc(k.Src, k.Cfg), detail)
		}
	}
	if pan != "" {
		fail("panic", pan)
		return
	}
	if k.WantErr {
		rep.Count("c07:expected-rejections")
		if err == nil {
			fail(k.Kind+"-accepted", fmt.Sprintf("must be rejected, but assembled to %v", hx.CoreStr(w.Code)))
		}
		return
	}
	if err != nil {
		fail(k.Kind+"-rejected", "must assemble, but: "+err.Error())
		return
	}
	if len(w.Code) != len(k.Fields) {
		fail(k.Kind+"-length", fmt.Sprintf("expected %d instructions, got %d: %s", len(k.Fields), len(w.Code), hx.CoreStr(w.Code)))
		return
	}
	for i, f := range k.Fields {
		if uint64(w.Code[i].A) != f[0] || uint64(w.Code[i].B) != f[1] {
			fail(k.Kind+"-value", fmt.Sprintf("instruction %d: expected fields (%d,%d), got (%d,%d)", i, f[0], f[1], w.Code[i].A, w.Code[i].B))
			return
		}
	}
	if w.Start != k.Start {
		fail(k.Kind+"-start", fmt.Sprintf("expected entry point %d, got %d", k.Start, w.Start))
	}
}

// ReplayC07 re-derives the expectation from the source text with R-expr (the
// enumeration computes it from the AST; the replay path uses the independent
// token evaluator, so both must agree with gmars).
func (c *Ctx) ReplayC07(wit string) error {
	i := strings.Index(wit, " cfg=")
	if !strings.HasPrefix(wit, "kind=") || i < 0 {
		return fmt.Errorf("bad C07 witness")
	}
	kind := wit[5:i]
	src, cfg, err := ParseWitnessSrc(wit[i+1:])
	if err != nil {
		return err
	}
	k, err := expectFromSource(kind, src, cfg)
	if err != nil {
		return err
	}
	c.runC07(k)
	return nil
}

// expectFromSource computes the expected outcome of a C07 source text of one
// of the generated layouts using the token evaluator.
func expectFromSource(kind, src string, cfg g.SimulatorConfig) (*c07case, error) {
	k := &c07case{Src: src, Cfg: cfg, Kind: kind}
	M := uint64(cfg.CoreSize)
	equs := map[string]string{}
	consts := map[string]int64{"CORESIZE": int64(cfg.CoreSize), "MAXLENGTH": int64(cfg.Length), "MAXPROCESSES": int64(cfg.Processes), "MINDISTANCE": int64(cfg.Distance)}
	var subst func(toks []string, depth int) ([]string, error)
	subst = func(toks []string, depth int) ([]string, error) {
		if depth > 20 {
			return nil, fmt.Errorf("equ depth")
		}
		var out []string
		for _, t := range toks {
			if body, ok := equs[t]; ok {
				bt, err := ref.Tokenize(body)
				if err != nil {
					return nil, err
				}
				bt, err = subst(bt, depth+1)
				if err != nil {
					return nil, err
				}
				out = append(out, bt...)
			} else if v, ok := consts[t]; ok {
				out = append(out, fmt.Sprintf("%d", v))
			} else {
				out = append(out, t)
			}
		}
		return out, nil
	}
	eval := func(text string) (*big.Int, error) {
		toks, err := ref.Tokenize(text)
		if err != nil {
			return nil, err
		}
		toks, err = subst(toks, 0)
		if err != nil {
			return nil, err
		}
		return ref.EvalTokens(toks, nil)
	}
	lines := strings.Split(src, "\n")
	type pending struct{ a, b string }
	var ins []pending
	forCount := -1
	var forBody []pending
	inFor := false
	replI := func(text string, i int) string {
		toks, _ := ref.Tokenize(text)
		for j, t := range toks {
			if t == "i" {
				toks[j] = fmt.Sprintf("%d", i)
			}
		}
		return strings.Join(toks, " ")
	}
	for _, ln := range lines {
		t := strings.TrimSpace(ln)
		if t == "" {
			continue
		}
		f := strings.Fields(t)
		switch {
		case strings.HasPrefix(t, ";assert"):
			v, err := eval(t[7:])
			if err != nil || v.Sign() == 0 {
				k.WantErr = true
			}
		case len(f) >= 3 && f[1] == "equ":
			equs[f[0]] = strings.TrimSpace(t[strings.Index(t, "equ")+3:])
		case len(f) >= 2 && f[1] == "for":
			v, err := eval(strings.TrimSpace(t[strings.Index(t, "for")+3:]))
			if err != nil {
				k.WantErr = true
				return k, nil
			}
			forCount = int(v.Int64())
			inFor = true
		case t == "rof":
			for i := 1; i <= forCount; i++ {
				for _, b := range forBody {
					ins = append(ins, pending{replI(b.a, i), replI(b.b, i)})
				}
			}
			inFor = false
		case strings.HasPrefix(t, "org ") || strings.HasPrefix(t, "end "):
			v, err := eval(t[4:])
			if err != nil {
				k.WantErr = true
				return k, nil
			}
			k.Start = int(v.Int64())
		case strings.HasPrefix(t, "dat "):
			ops := strings.SplitN(t[4:], ",", 2)
			if len(ops) != 2 {
				return nil, fmt.Errorf("unsupported line %q", t)
			}
			if inFor {
				forBody = append(forBody, pending{ops[0], ops[1]})
			} else {
				ins = append(ins, pending{ops[0], ops[1]})
			}
		default:
			return nil, fmt.Errorf("unsupported line %q", t)
		}
	}
	stripMode := func(t string) string {
		t = strings.TrimSpace(t)
		if t != "" && strings.ContainsRune("#$@<>*{}", rune(t[0])) {
			return t[1:]
		}
		return t
	}
	for _, p := range ins {
		p.a, p.b = stripMode(p.a), stripMode(p.b)
		a, err := eval(p.a)
		if err != nil {
			k.WantErr = true
			return k, nil
		}
		b, err := eval(p.b)
		if err != nil {
			k.WantErr = true
			return k, nil
		}
		k.Fields = append(k.Fields, [2]uint64{ref.ModM(a, M), ref.ModM(b, M)})
	}
	return k, nil
}

package e4

import (
	"fmt"
	"regexp"
	"strings"

	g "github.com/bobertlo/gmars"

	"verif/mc/ref"
)

// FItem is an item of an abstract FOR program: an instruction template or a
// FOR/ROF block.
type FItem struct {
	Block   bool
	Tmpl    int
	Label   string // block label ("" = none)
	Counter string
	Count   string // count expression as written
	Items   []FItem
	PreEqu  bool // an EQU line `m equ 2` is written directly before this (top-level) block
	Tail    bool // the body ends with a line that holds only the label `tail` (count 1 blocks)
}

var counterNames = []string{"i", "j", "k"}

// insText gives the operand texts of template t at nesting depth d; blk is
// the innermost labelled enclosing block ("" = none).
func insText(t, d int, blk string) (op, a, b string) {
	inner, outer := "0", "0"
	if d > 0 {
		inner, outer = counterNames[d-1], counterNames[0]
	}
	switch t {
	case 0:
		return "dat", "#" + inner, "#" + outer
	case 1:
		if d == 0 {
			return "mov", "jink", "1"
		}
		return "mov", "jink", "2*" + inner + "-" + outer
	case 2:
		target := "jink"
		if blk != "" {
			target = blk
		}
		return "add", "#" + inner + "*n", target
	default:
		if d == 0 {
			return "spl", "1", "2"
		}
		return "spl", inner + "+" + outer, inner
	}
}

var twinRe = regexp.MustCompile(`\b(jink|n|blk)\b`)

// caseTwins renames jink, n and blk to I, J and K. Labels are case-sensitive,
// so the program means the same; only a counter substitution that ignores
// case confuses them with the counters i, j, k.
func caseTwins(src string) string {
	head, rest, _ := strings.Cut(src, "\n") // ("n equ 2") ; the comment on the second line is left alone
	rest2 := rest
	cmt := ""
	if i := strings.Index(rest, " ; rof for i j k"); i >= 0 {
		cmt = " ; rof for i j k"
		rest2 = rest[:i] + rest[i+len(cmt):]
	}
	_ = cmt
	return twinRe.ReplaceAllStringFunc(head+"\n"+rest2, func(w string) string {
		return map[string]string{"jink": "I", "n": "J", "blk": "K"}[w]
	})
}

// forSource renders the program with FOR/ROF blocks.
func forSource(items []FItem, epilogue string) string {
	var sb strings.Builder
	sb.WriteString("n equ 2\njink jmp 1 ; rof for i j k\n")
	var rec func(items []FItem, d int, blk string)
	rec = func(items []FItem, d int, blk string) {
		for _, it := range items {
			if !it.Block {
				op, a, b := insText(it.Tmpl, d, blk)
				sb.WriteString(op + " " + a + ", " + b + "\n")
				continue
			}
			if it.PreEqu {
				sb.WriteString("m equ 2\n")
			}
			if it.Label != "" {
				sb.WriteString(it.Label + " ")
			}
			sb.WriteString(it.Counter + " for " + it.Count + "\n")
			nb := blk
			if it.Label != "" {
				nb = it.Label
			}
			rec(it.Items, d+1, nb)
			if it.Tail {
				sb.WriteString("tail\n")
			}
			sb.WriteString("rof\n")
		}
	}
	rec(items, 0, "")
	sb.WriteString(epilogue)
	return sb.String()
}

// unroll writes every body count times with the counter replaced by 1..count;
// block labels move to the first instruction the block emits. It returns the
// flat program, the number of block expansions (passes the expander needs) and
// ok=false if a labelled block emits nothing (not generated).
func unroll(items []FItem, epilogue *ref.AIns) (*ref.AProg, int, bool) {
	p := &ref.AProg{Equs: []ref.AEqu{{Name: "n", Body: []string{"2"}}, {Name: "m", Body: []string{"2"}}}}
	p.Ins = append(p.Ins, ref.AIns{Labels: []string{"jink"}, Op: "jmp", A: operand("", "1")})
	expansions := 0
	ok := true
	uniq := 0
	var pending []string
	var rec func(items []FItem, d int, env map[string]int, blk string)
	rec = func(items []FItem, d int, env map[string]int, blk string) {
		for _, it := range items {
			if !it.Block {
				op, a, b := insText(it.Tmpl, d, blk)
				sub := func(s string) ref.Operand {
					mode := ""
					if strings.HasPrefix(s, "#") {
						mode, s = "#", s[1:]
					}
					ts := toks(s)
					for i, t := range ts {
						if v, isC := env[t]; isC {
							ts[i] = fmt.Sprintf("%d", v)
						}
					}
					return ref.Operand{Present: true, Mode: mode, Expr: ts}
				}
				in := ref.AIns{Op: op, A: sub(a), B: sub(b), Labels: pending}
				pending = nil
				p.Ins = append(p.Ins, in)
				continue
			}
			expansions++
			// count: literal, n, n+1, or an enclosing counter
			ct := toks(it.Count)
			for i, t := range ct {
				if v, isC := env[t]; isC {
					ct[i] = fmt.Sprintf("%d", v)
				} else if t == "n" || t == "m" {
					ct[i] = "2"
				}
			}
			cv, err := ref.EvalTokens(ct, nil)
			if err != nil {
				ok = false
				return
			}
			n := int(cv.Int64())
			nb := blk
			before := len(p.Ins)
			if it.Label != "" {
				// each dynamic instance of a labelled block gets its own label
				// a labelled block instantiated more than once would define
				// its label twice in the manual unrolling as well: such
				// programs are not well-formed and are not generated
				uniq++
				if uniq > 1 {
					ok = false
				}
				nb = fmt.Sprintf("%s_%d", it.Label, uniq)
				pending = append(pending, nb)
			}
			for v := 1; v <= n; v++ {
				e2 := map[string]int{}
				for k, x := range env {
					e2[k] = x
				}
				e2[it.Counter] = v
				rec(it.Items, d+1, e2, nb)
			}
			if it.Tail && n == 1 {
				pending = append(pending, "tail")
			}
			if it.Label != "" && len(p.Ins) == before {
				ok = false // labelled block that emits nothing: not generated
				pending = nil
			}
		}
	}
	rec(items, 0, map[string]int{}, "")
	if epilogue != nil {
		e := *epilogue
		e.Labels = append(append([]string{}, pending...), e.Labels...)
		pending = nil
		p.Ins = append(p.Ins, e)
	}
	if len(pending) > 0 {
		ok = false
	}
	return p, expansions, ok
}

// checkFor: Compile(p) == Compile(unroll(p)) == meaning(unroll(p)).
func (c *Ctx) checkFor(items []FItem, epiSrc string, epi *ref.AIns, note string) {
	c.checkForN(items, epiSrc, epi, note, 90)
}

func (c *Ctx) checkForN(items []FItem, epiSrc string, epi *ref.AIns, note string, maxIns int) {
	rep := c.Rep
	flat, passes, ok := unroll(items, epi)
	if !ok || (passes > 40 && maxIns <= 90) {
		rep.Count("c08:generator-skipped")
		return
	}
	if len(flat.Ins) > maxIns {
		rep.Count("c08:generator-skipped")
		return
	}
	cfg := cfgM(8000, g.ICWS94)
	cfg.Length = g.Address(maxIns + 10)
	m, err := ref.Denote(flat, cfg)
	if err != nil {
		rep.Count("c08:generator-skipped")
		return
	}
	src := forSource(items, epiSrc)
	sc := mkCase(flat, m, cfg, src, fmt.Sprintf("%s; %d block expansions", note, passes))
	sc.Meta = false
	c.checkSrc("C08", sc)
	// the same program in other surface forms: CR-LF line ends, upper-case
	// FOR/ROF with a trailing comment after ROF, between ORG and END
	for vi, v := range []string{
		strings.ReplaceAll(src, "\n", "\r\n"),
		strings.ReplaceAll(strings.ReplaceAll(src, " for ", " FOR "), "rof\n", "ROF ; end of block\n"),
		"org 0\n" + src + "end\n",
		strings.ReplaceAll(strings.ReplaceAll(src, ", ", " , "), "\n", " ; c\n"), // a trailing comment on every line, blanks around the commas
		caseTwins(src), // the outside label, the EQU and the block label spelled I, J, K: the counters' names in the other case
	} {
		if (c.unit+vi)%5 != 0 {
			continue // one variant per program, rotating
		}
		sv := mkCase(flat, m, cfg, v, fmt.Sprintf("%s; surface variant %d", note, vi))
		sv.Meta = false
		c.checkSrc("C08", sv)
	}
	usrc, _ := Render(flat, nil)
	// drop the metadata lines of the flat rendering
	if i := strings.Index(usrc, "n equ"); i >= 0 {
		usrc = usrc[i:]
	}
	sc2 := mkCase(flat, m, cfg, usrc, note+"; manual unrolling")
	sc2.Meta = false
	c.checkSrc("C08", sc2)
	rep.Count(fmt.Sprintf("c08:programs-with-%02d-expansions", passes))
	if len(flat.Ins) == 1 {
		rep.Count("c08:programs-emitting-nothing")
	}
}

// genTrees enumerates item lists with at most budget items in total.
func genTrees(budget, depth, maxDepth int, counts1, countsN []int, f func([]FItem, int)) {
	var rec func(budget int, acc []FItem)
	rec = func(budget int, acc []FItem) {
		if len(acc) > 0 {
			f(acc, budget)
		}
		if budget == 0 {
			return
		}
		// next item: an instruction
		for t := 0; t < 4; t++ {
			rec(budget-1, append(append([]FItem{}, acc...), FItem{Tmpl: t}))
		}
		// or a block with a non-empty body
		if depth < maxDepth && budget >= 2 {
			cs := countsN
			if depth == 0 {
				cs = counts1
			}
			genTrees(budget-1, depth+1, maxDepth, counts1, countsN, func(body []FItem, left int) {
				for _, n := range cs {
					b := FItem{Block: true, Counter: counterNames[depth], Count: fmt.Sprintf("%d", n), Items: body}
					rec(left, append(append([]FItem{}, acc...), b))
				}
			})
		}
	}
	rec(budget, nil)
}

// RunC08 enumerates FOR structures.
func (c *Ctx) RunC08(tier string) {
	thorough := tier == "thorough"
	rep := c.Rep
	budget, counts1, countsN := 4, []int{0, 1, 2, 3, 6}, []int{0, 1, 2, 3}
	if thorough {
		budget, counts1 = 5, []int{0, 1, 2, 3, 4, 5, 6}
	}
	n := 0
	genTrees(budget, 0, 3, counts1, countsN, func(items []FItem, _ int) {
		hasBlock := false
		for _, it := range items {
			hasBlock = hasBlock || it.Block
		}
		if !hasBlock {
			return
		}
		n++
		if !c.mine() || c.expired() {
			return
		}
		c.checkFor(items, "", nil, "literal counts")
		// deviations, one block at a time: block label (used inside and after
		// the block) and the count spelled through an EQU or an enclosing counter
		var blocks []*FItem
		var walk func(its []FItem, d int)
		cp := cloneItems(items)
		var depthOf []int
		walk = func(its []FItem, d int) {
			for i := range its {
				if its[i].Block {
					blocks = append(blocks, &its[i])
					depthOf = append(depthOf, d)
					walk(its[i].Items, d+1)
				}
			}
		}
		walk(cp, 0)
		for bi, b := range blocks {
			b.Label = "blk"
			if depthOf[bi] == 0 {
				epi := ref.AIns{Op: "jmp", A: operand("", "blk_1")}
				c.checkFor(cp, "jmp blk\n", &epi, "block label referenced inside and after the block")
			} else {
				c.checkFor(cp, "", nil, "nested block label referenced inside the block")
			}
			b.Label = ""
			old := b.Count
			var alts []string
			switch old {
			case "2":
				alts = append(alts, "n")
			case "3":
				alts = append(alts, "n+1")
			}
			if depthOf[bi] > 0 {
				alts = append(alts, counterNames[depthOf[bi]-1])
				if old == "2" {
					// an expression over the enclosing counter and an EQU with the same value
					alts = append(alts, "n+"+counterNames[depthOf[bi]-1]+"-"+counterNames[depthOf[bi]-1])
				}
			}
			for _, a := range alts {
				b.Count = a
				c.checkFor(cp, "", nil, "count spelled "+a)
			}
			b.Count = old
			// a label-only line as the last body line of a block that runs once
			if depthOf[bi] == 0 && old == "1" {
				b.Tail = true
				epi := ref.AIns{Op: "jmp", A: operand("", "tail"), B: operand("", "jink")}
				c.checkFor(cp, "jmp tail, jink\n", &epi, "label-only line before ROF")
				b.Tail = false
			}
			// the count from an EQU that is defined between two blocks
			if depthOf[bi] == 0 && bi > 0 && (old == "2" || old == "3") {
				b.PreEqu = true
				b.Count = map[string]string{"2": "m", "3": "m+1"}[old]
				c.checkFor(cp, "", nil, "count from an EQU defined between blocks")
				b.PreEqu = false
				b.Count = old
			}
		}
	})
	rep.Bound = fmt.Sprintf("every FOR structure tree with <=%d items (4 instruction templates using the enclosing counters in arithmetic, an EQU and an outside label), nesting depth <=3, counts %v at depth 1 and %v below, <=40 block expansions; each also with one labelled block (label used inside and after it) and with one count spelled as EQU name, EQU+1 or an enclosing counter", budget, counts1, countsN)

	// sequences of 1..14 one-line blocks (one block is expanded per pass)
	if c.Sh.I == 0 {
		for k := 1; k <= 14; k++ {
			for _, cnt := range []int{0, 1, 2} {
				var items []FItem
				for j := 0; j < k; j++ {
					items = append(items, FItem{Block: true, Counter: "i", Count: fmt.Sprintf("%d", cnt), Items: []FItem{{Tmpl: j % 4}}})
				}
				c.checkFor(items, "", nil, fmt.Sprintf("%d blocks in sequence", k))
			}
		}
		// deep multiplication: 6 x 3 x 1 and 3 x 3 x 3
		for _, cs := range [][3]int{{6, 3, 1}, {3, 3, 3}, {2, 2, 2}, {6, 1, 1}, {1, 3, 3}} {
			items := []FItem{{Block: true, Counter: "i", Count: fmt.Sprintf("%d", cs[0]), Items: []FItem{
				{Block: true, Counter: "j", Count: fmt.Sprintf("%d", cs[1]), Items: []FItem{
					{Block: true, Counter: "k", Count: fmt.Sprintf("%d", cs[2]), Items: []FItem{{Tmpl: 1}, {Tmpl: 3}}}}}}}}
			c.checkFor(items, "", nil, fmt.Sprintf("nest %v", cs))
		}
	}
	// every count 7..100 (the counter grows past one and two digits), and bodies of 5..12 lines
	for cnt := 7; cnt <= 100; cnt++ {
		if !c.Sh.Mine(cnt) {
			continue
		}
		items := []FItem{{Block: true, Label: "blk", Counter: "i", Count: fmt.Sprintf("%d", cnt), Items: []FItem{{Tmpl: 1}, {Tmpl: 2}}}}
		epi := ref.AIns{Op: "jmp", A: operand("", "blk_1")}
		c.checkForN(items, "jmp blk\n", &epi, fmt.Sprintf("count %d", cnt), 200)
	}
	for l := 5; l <= 12; l++ {
		if !c.Sh.Mine(l) {
			continue
		}
		for _, cnt := range []int{0, 1, 2, 3} {
			var body []FItem
			for j := 0; j < l; j++ {
				body = append(body, FItem{Tmpl: (j + l) % 4})
			}
			items := []FItem{{Tmpl: 3}, {Block: true, Label: "blk", Counter: "i", Count: fmt.Sprintf("%d", cnt), Items: body}, {Tmpl: 0}}
			c.checkForN(items, "", nil, fmt.Sprintf("body of %d lines x %d", l, cnt), 200)
			// the same body inside an outer block
			outer := []FItem{{Block: true, Counter: "i", Count: "2", Items: []FItem{{Block: true, Counter: "j", Count: fmt.Sprintf("%d", cnt), Items: body}}}}
			c.checkForN(outer, "", nil, fmt.Sprintf("nested body of %d lines x %d", l, cnt), 200)
		}
	}
	if c.Sh.I == c.Sh.N-1 {
		items := []FItem{{Block: true, Counter: "i", Count: "12", Items: []FItem{{Block: true, Counter: "j", Count: "i", Items: []FItem{{Tmpl: 3}}}}}}
		c.checkForN(items, "", nil, "12 x i nest", 200)
		// four and five levels (the instruction templates use the innermost and outermost counters)
		deep := func(counts []int) []FItem {
			names := []string{"i", "j", "k", "p", "q"}
			cur := []FItem{{Tmpl: 1}, {Tmpl: 3}}
			for l := len(counts) - 1; l >= 0; l-- {
				cur = []FItem{{Block: true, Counter: names[l], Count: fmt.Sprintf("%d", counts[l]), Items: cur}}
			}
			return cur
		}
		for _, cs := range [][]int{{2, 2, 2, 2}, {1, 2, 1, 3}, {2, 1, 2, 1, 2}, {3, 0, 2, 2}} {
			c.checkForDeep(deep(cs), fmt.Sprintf("nest %v", cs))
		}
	}
	rep.Bound += "; sequences of 1..14 one-line blocks with counts 0..2; nests 6x3x1, 3x3x3, 2x2x2, 6x1x1, 1x3x3; single labelled blocks with every count 7..100, bodies of 5..12 lines (counts 0..3, alone and nested), a 12 x i nest, nests of depth 4 and 5; one surface variant per program (CR-LF, upper-case FOR/ROF with a comment after ROF, between ORG and END, a trailing comment on every line, labels spelled like the counters in the other case)"
	c.runC08Comments()
	rep.Counters["c08:structure-trees"] += int64(n) / int64(c.Sh.N)
	rep.Sample(forSource([]FItem{{Block: true, Label: "blk", Counter: "i", Count: "n+1", Items: []FItem{{Tmpl: 2}, {Block: true, Counter: "j", Count: "i", Items: []FItem{{Tmpl: 1}}}}}}, "jmp blk\n"))
}

func cloneItems(items []FItem) []FItem {
	out := make([]FItem, len(items))
	for i, it := range items {
		out[i] = it
		out[i].Items = cloneItems(it.Items)
	}
	return out
}

// checkForDeep handles nests deeper than the three counter names of the
// generic generator: the body uses the innermost and outermost counters.
func (c *Ctx) checkForDeep(items []FItem, note string) {
	names := []string{"i", "j", "k", "p", "q"}
	var src strings.Builder
	src.WriteString("n equ 2\na jmp 1\n")
	p := &ref.AProg{Equs: []ref.AEqu{{Name: "n", Body: []string{"2"}}}}
	p.Ins = append(p.Ins, ref.AIns{Labels: []string{"a"}, Op: "jmp", A: operand("", "1")})
	var rec func(its []FItem, d int, env []int)
	rec = func(its []FItem, d int, env []int) {
		for _, it := range its {
			if it.Block {
				var n int
				fmt.Sscanf(it.Count, "%d", &n)
				for v := 1; v <= n; v++ {
					rec(it.Items, d+1, append(append([]int{}, env...), v))
				}
				continue
			}
			inner, outer := env[len(env)-1], env[0]
			if it.Tmpl == 1 {
				p.Ins = append(p.Ins, ref.AIns{Op: "mov", A: operand("", "a"), B: operand("", fmt.Sprintf("2*%d-%d", inner, outer))})
			} else {
				p.Ins = append(p.Ins, ref.AIns{Op: "spl", A: operand("", fmt.Sprintf("%d+%d", inner, outer)), B: operand("", fmt.Sprintf("%d", inner))})
			}
		}
	}
	var wr func(its []FItem, d int)
	depth := 0
	var cnt func(its []FItem) int
	cnt = func(its []FItem) int {
		for _, it := range its {
			if it.Block {
				return 1 + cnt(it.Items)
			}
		}
		return 0
	}
	depth = cnt(items)
	wr = func(its []FItem, d int) {
		for _, it := range its {
			if it.Block {
				src.WriteString(it.Counter + " for " + it.Count + "\n")
				wr(it.Items, d+1)
				src.WriteString("rof\n")
				continue
			}
			inner, outer := names[depth-1], names[0]
			if it.Tmpl == 1 {
				src.WriteString("mov a, 2*" + inner + "-" + outer + "\n")
			} else {
				src.WriteString("spl " + inner + "+" + outer + ", " + inner + "\n")
			}
		}
	}
	wr(items, 0)
	rec(items, 0, nil)
	cfg := cfgM(8000, g.ICWS94)
	m, err := ref.Denote(p, cfg)
	if err != nil {
		c.Rep.Count("c08:generator-skipped")
		return
	}
	sc := mkCase(p, m, cfg, src.String(), note)
	sc.Meta = false
	c.checkSrc("C08", sc)
}

// Package e6 is the termination engine (C05): token soup, mutated seed
// programs, reader chunkings and producer/consumer schedules are assembled
// under the controlled scheduler of the instrumented build, where "does not
// return" is a deterministic step-budget verdict and "leaves a goroutine
// behind" is a thread still blocked when all others have finished. A
// secondary free-running pass on the plain build covers code the
// instrumenter does not see.
package e6

import (
	"encoding/json"
	"fmt"
	"runtime"
	"strings"
	"time"

	g "github.com/bobertlo/gmars"

	"verif/mc/engines/e4"
	"verif/mc/hx"
	"verif/mc/sched"
)

type Ctx struct {
	Rep      *hx.Report
	Sh       hx.Shard
	Deadline time.Time
	WD       *hx.Watchdog
	Props    string
	stop     bool
	unit     int
	leaks    int
}

func (c *Ctx) expired() bool {
	if c.stop {
		return true
	}
	if !c.Deadline.IsZero() && time.Now().After(c.Deadline) {
		c.stop = true
		c.Rep.Exhaustive = false
		c.Rep.Note("tier time cap reached; the enumeration was cut short")
	}
	return c.stop
}

func (c *Ctx) mine() bool {
	c.unit++
	return c.Sh.Mine(c.unit)
}

// Case is the witness format: an input, a configuration, how it is run.
type Case struct {
	Cfg    [8]uint64     `json:"cfg"`
	Src    string        `json:"src"`
	Mode   string        `json:"mode"`              // sync | fine | free
	Prefix sched.Choices `json:"choices,omitempty"` // explorer choice list (schedule / chunking / map orders)
	Chunk  bool          `json:"chunked_reader,omitempty"`
	Budget int64         `json:"budget,omitempty"`
	Note   string        `json:"note,omitempty"`
}

func (k *Case) witness() string {
	b, _ := json.Marshal(k)
	return string(b)
}

func cfgArr(c g.SimulatorConfig) [8]uint64 {
	return [8]uint64{uint64(c.Mode), uint64(c.CoreSize), uint64(c.Processes), uint64(c.Cycles), uint64(c.ReadLimit), uint64(c.WriteLimit), uint64(c.Length), uint64(c.Distance)}
}

func arrCfg(a [8]uint64) g.SimulatorConfig {
	return g.SimulatorConfig{Mode: g.SimulatorMode(a[0]), CoreSize: g.Address(a[1]), Processes: g.Address(a[2]), Cycles: g.Address(a[3]),
		ReadLimit: g.Address(a[4]), WriteLimit: g.Address(a[5]), Length: g.Address(a[6]), Distance: g.Address(a[7])}
}

var (
	cfgNano = g.ConfigNopNano
	cfg94   = g.ConfigNOP94
	cfg88   = g.ConfigKOTH88
)

// Lexemes is the token-soup alphabet; the last slot rotates.
func Lexemes(special string) []string {
	return []string{"a", "x", "dat", "mov.i", "equ", "for", "rof", "end", "org", "0", "1", "+", "-", "*", "/", "(", ")", ",", ":", "#", "<", ";assert", "\n", special}
}

var Specials = []string{"\x00", "\x1a", "\xff", "=", "&", "!", "\r\n", ";c", "|", ">", "==", "\xc3",
	// non-ASCII digits, letters and spaces; operator characters glued to the next token
	"\u0663", "1\u0663", "\u00e9", "\u00a0", "\u2028", "=x", "&x", "|x", "<=", ">=x", "\x1ax", "0x", "1.5", "a.b.c", "$$", "\t", "\x0c", "||", "&&", "!="}

// Seeds of the mutation space.
func Seeds() []string {
	return []string{
		string(g.Imp_94_red),
		string(g.SimpleShot_94_red),
		"i for 2\nj for 2\ndat i, j\nrof\nrof\n",
		"a equ b+1\nb equ 2\n;assert a == 3\nmov a, b\n",
		"x equ y\ny equ x\n;assert x\ndat x\n",
		"i for 2\ndat i\nrof\nj for 1/0\ndat j\nrof\n",
		"l1\nl2\nl3\n",
		"mov 0, 1 ; unterminated last line",
		"start mov.i $0, $1\n end start\n garbage $$$ after end\n",
		"n equ 3\nblk i for n\nspl blk, i\nrof\njmp blk\n",
		"org s\nx equ (1+2)*3\ns add.ab #x, @-x\n djn.f s, <s\n",
		";redcode-94\n;name t\n;author a\n;assert CORESIZE > 1\nnop\n",
		"i for 0-1\ndat i\nrof\ndat 1\n",
		"n equ 2\nj for n-3\ndat j\nrof\nk for 1\ndat k\nrof\n",
	}
}

// Tokens splits a source into mutation units (lexemes and newlines).
func Tokens(src string) []string {
	var out []string
	cur := ""
	flush := func() {
		if cur != "" {
			out = append(out, cur)
			cur = ""
		}
	}
	for _, r := range src {
		switch {
		case r == '\n':
			flush()
			out = append(out, "\n")
		case r == ' ' || r == '\t' || r == '\r':
			flush()
		case strings.ContainsRune("+-*/(),:#<>@$;{}%", r):
			flush()
			out = append(out, string(r))
		default:
			cur += string(r)
		}
	}
	flush()
	return out
}

func Join(toks []string) string {
	var sb strings.Builder
	for i, t := range toks {
		if i > 0 && t != "\n" && toks[i-1] != "\n" {
			sb.WriteString(" ")
		}
		sb.WriteString(t)
	}
	return sb.String()
}

// Mutations1 calls f with every single-token mutation of toks: delete,
// duplicate, swap with the next, substitute by each lexeme.
func Mutations1(toks []string, lex []string, f func([]string, string)) {
	for i := range toks {
		d := append(append([]string{}, toks[:i]...), toks[i+1:]...)
		f(d, fmt.Sprintf("delete %d", i))
		du := append(append(append([]string{}, toks[:i+1]...), toks[i]), toks[i+1:]...)
		f(du, fmt.Sprintf("duplicate %d", i))
		if i+1 < len(toks) {
			sw := append([]string{}, toks...)
			sw[i], sw[i+1] = sw[i+1], sw[i]
			f(sw, fmt.Sprintf("swap %d", i))
		}
		for li, l := range lex {
			if l == toks[i] {
				continue
			}
			su := append([]string{}, toks...)
			su[i] = l
			f(su, fmt.Sprintf("substitute %d by lexeme %d", i, li))
		}
	}
}

// verdict evaluates the result clauses common to every mode.
func (c *Ctx) verdict(k *Case, w g.WarriorData, err error, pan string) {
	rep := c.Rep
	fail := func(kind, detail string) {
		if rep.Hit("C05", kind) {
			rep.Add("C05", kind, k.witness(), detail)
		}
	}
	if pan != "" {
		fail("panic", pan)
		return
	}
	if err != nil {
		rep.Count("c05:rejected")
		if w.Code != nil || w.Start != 0 || w.Name != "" || w.Author != "" || w.Strategy != "" {
			fail("error-and-warrior", fmt.Sprintf("error %q together with data %+v", err, w))
		}
		return
	}
	rep.Count("c05:accepted")
	if w.Code == nil {
		fail("neither-error-nor-warrior", "nil error and nil code")
	}
	if strings.Contains(c.Props, "C06") {
		if kind, detail := e4.Pred06(w, arrCfg(k.Cfg)); kind != "" {
			if rep.Hit("C06", kind) {
				rep.Add("C06", kind, k.witness(), detail)
			}
		}
	}
}

// FreeRun is the secondary pass on the plain (or detached) build: goroutine
// count before and after every call, under the process watchdog.
func (c *Ctx) FreeRun(src string, cfg g.SimulatorConfig, note string) {
	rep := c.Rep
	k := &Case{Cfg: cfgArr(cfg), Src: src, Mode: "free", Note: note}
	rep.States++
	rep.Transitions++
	before := runtime.NumGoroutine()
	var w g.WarriorData
	var err error
	var pan string
	c.WD.Begin("C05", "does-not-return", k.witness)
	func() {
		defer func() {
			if p := recover(); p != nil {
				pan = fmt.Sprint(p)
			}
		}()
		w, err = g.CompileWarrior(strings.NewReader(src), cfg)
	}()
	c.WD.End()
	rep.Traces++
	c.verdict(k, w, err, pan)
	// producer goroutines need a moment to finish after the consumer has
	// returned; a goroutine that is still there after a long grace period is
	// blocked for good
	after := runtime.NumGoroutine()
	for i := 0; after > before && i < 2000; i++ {
		runtime.Gosched()
		if i > 100 {
			time.Sleep(time.Millisecond)
		}
		after = runtime.NumGoroutine()
	}
	if after > before {
		buf := make([]byte, 1<<16)
		n := runtime.Stack(buf, true)
		st := string(buf[:n])
		where := ""
		for _, blk := range strings.Split(st, "\n\n") {
			if strings.Contains(blk, "gmars.") && (strings.Contains(blk, "chan send") || strings.Contains(blk, "chan receive")) {
				lines := strings.Split(blk, "\n")
				if len(lines) > 2 {
					where = lines[0] + " " + strings.TrimSpace(lines[1])
				}
			}
		}
		if rep.Hit("C05", "goroutine-left-behind") {
			rep.Add("C05", "goroutine-left-behind", k.witness(), fmt.Sprintf("%d goroutines before the call, %d after a 2 s grace period: %s", before, after, where))
		}
		// the leaked goroutine stays for the rest of the process; every
		// further leak costs the whole grace period, so a few are enough
		c.leaks++
		if c.leaks >= 5 && !c.stop {
			c.stop = true
			rep.Exhaustive = false
			rep.Note("free-running pass stopped after 5 goroutines were left behind")
		}
	}
}

// RunFree enumerates the free-running pass.
func (c *Ctx) RunFree(tier string) {
	rep := c.Rep
	lex := append(Lexemes("\x1a"), Specials...)
	n := 3
	if tier == "thorough" {
		n = 4
	}
	var rec func(cur []string)
	rec = func(cur []string) {
		if len(cur) > 0 && c.mine() && !c.expired() {
			c.FreeRun(Join(cur), cfg94, "lexeme string")
		}
		if len(cur) == n {
			return
		}
		for _, l := range lex {
			rec(append(cur, l))
		}
	}
	rec(nil)
	for si, s := range Seeds() {
		toks := Tokens(s)
		if len(toks) > 120 {
			continue
		}
		c.FreeRun(s, cfg94, fmt.Sprintf("seed %d", si))
		Mutations1(toks, lex, func(m []string, what string) {
			if c.mine() && !c.expired() {
				c.FreeRun(Join(m), cfg94, fmt.Sprintf("seed %d %s", si, what))
			}
		})
	}
	rep.Bound = fmt.Sprintf("free-running plain build: every lexeme string of length <=%d over 24 lexemes; the short seeds and every 1-token mutation; goroutine count before/after each call with a 2 s grace period, 30 s watchdog per call", n)
	rep.Sample(Join([]string{"x", "equ", "x", "+", "1", "\n", ";assert", "x"}))
}

// ForFactor is a conservative over-estimate of the product of the FOR counts
// of a source text (the property bounds it): per line containing the word
// "for", the number formed by all digits on that line and on the EQU lines of
// the identifiers it mentions.
func ForFactor(src string) int {
	lines := strings.Split(src, "\n")
	digits := func(l string) int {
		v := 0
		for _, r := range l {
			if r >= '0' && r <= '9' {
				v = v*10 + int(r-'0')
				if v > 1000000 {
					return 1000000
				}
			}
		}
		return v
	}
	equ := map[string]int{}
	for _, l := range lines {
		f := strings.Fields(strings.ToLower(l))
		for i, w := range f {
			if w == "equ" {
				d := digits(l)
				for _, name := range f[:i] {
					if d > equ[name] {
						equ[name] = d
					}
				}
			}
		}
	}
	factor := 1
	for _, l := range lines {
		low := strings.ToLower(l)
		isFor := false
		for _, w := range strings.FieldsFunc(low, func(r rune) bool { return !(r == '_' || r == '.' || (r >= 'a' && r <= 'z') || (r >= '0' && r <= '9')) }) {
			if w == "for" {
				isFor = true
			}
		}
		if !isFor {
			continue
		}
		n := digits(l)
		for _, w := range strings.FieldsFunc(low, func(r rune) bool { return !(r == '_' || (r >= 'a' && r <= 'z') || (r >= '0' && r <= '9')) }) {
			if d, ok := equ[w]; ok && d > n {
				n = d
			}
		}
		if n < 1 {
			n = 1
		}
		factor *= n
		if factor > 1000000 {
			return 1000000
		}
	}
	return factor
}

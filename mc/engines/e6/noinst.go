//go:build !verifinst

package e6

// RunInst needs the instrumented build.
func (c *Ctx) RunInst(tier string) {
	c.Rep.Exhaustive = false
	c.Rep.Note("this binary was built without the instrumentation overlay; the scheduler-controlled spaces were not run")
}

func (c *Ctx) ReplayInst(k *Case) {
	c.Rep.Note("this binary was built without the instrumentation overlay")
}

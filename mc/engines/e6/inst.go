//go:build verifinst

package e6

import (
	"errors"
	"fmt"
	"io"
	"os"
	"strings"

	g "github.com/bobertlo/gmars"

	"verif/mc/sched"
)

func attach(s *sched.Sched) {
	g.VerifHooks = &g.VerifHookSet{Tick: s.Tick, Go: s.Go, Send: s.Send, Recv: s.Recv, Close: s.Close, Perm: s.Perm}
}

func detach() { g.VerifHooks = nil }

// chunkReader hands the input over in pieces chosen by the explorer: every
// Read returns all remaining bytes (alternative 0), a shorter prefix, or an
// error instead of more data.
type chunkReader struct {
	s     *sched.Sched
	data  []byte
	pos   int
	chunk bool
}

var errInjected = errors.New("injected read error")

func (r *chunkReader) Read(p []byte) (int, error) {
	rem := len(r.data) - r.pos
	if rem == 0 {
		return 0, io.EOF
	}
	max := rem
	if len(p) < max {
		max = len(p)
	}
	n := max
	if r.chunk {
		c := r.s.Env(max + 1)
		switch {
		case c == 0:
		case c < max:
			n = c
		default:
			return 0, errInjected
		}
	}
	copy(p, r.data[r.pos:r.pos+n])
	r.pos += n
	return n, nil
}

// execute runs one case under the scheduler.
func (c *Ctx) execute(k *Case) (o *sched.Outcome, w g.WarriorData, err error, pan string) {
	s := &sched.Sched{Fine: k.Mode == "fine", Budget: k.Budget, Prefix: k.Prefix}
	attach(s)
	defer detach()
	cfg := arrCfg(k.Cfg)
	rd := &chunkReader{s: s, data: []byte(k.Src), chunk: k.Chunk}
	c.WD.Begin("C05", "harness-watchdog", k.witness)
	o = s.Run(func() {
		defer func() {
			if p := recover(); p != nil {
				if fmt.Sprintf("%T", p) == "sched.killSentinel" {
					panic(p)
				}
				pan = fmt.Sprint(p)
			}
		}()
		w, err = g.CompileWarrior(rd, cfg)
	})
	c.WD.End()
	c.Rep.Transitions++
	return
}

// judge evaluates one execution.
func (c *Ctx) judge(k *Case, o *sched.Outcome, w g.WarriorData, err error, pan string) {
	rep := c.Rep
	rep.Traces++
	fail := func(kind, detail string) {
		if rep.Hit("C05", kind) {
			kk := *k
			kk.Prefix = o.Choices()
			rep.Add("C05", kind, kk.witness(), detail)
		}
	}
	switch {
	case o.Diverged != "":
		fmt.Fprintln(os.Stderr, "replay diverged:", o.Diverged, k.witness())
		os.Exit(3)
	case o.BudgetExceeded:
		fail("does-not-terminate", fmt.Sprintf("step budget of %d ticks exhausted (the call does not return in time proportional to its input)", k.Budget))
	case o.ThreadPanic != "":
		fail("panic", "in a background goroutine: "+o.ThreadPanic)
	case o.Deadlock:
		fail("deadlock", "the calling goroutine is blocked forever and nothing else can run")
	case len(o.Leaked) > 0:
		fail("goroutine-left-behind", strings.Join(o.Leaked, "; "))
	case !o.MainDone:
		fail("does-not-terminate", "the call did not return")
	default:
		c.verdict(k, w, err, pan)
	}
	if o.Threads > 2 {
		rep.Count("c05:executions-with-a-for-expander-thread")
	}
}

// maxForFactor: inputs whose FOR counts may multiply to more than this are
// outside the property's quantifier ("FOR counts multiply to at most a fixed
// bound") and are not judged by the step budget of their seed.
const maxForFactor = 64

func (c *Ctx) runDefault(src string, cfg g.SimulatorConfig, budget int64, note string) *sched.Outcome {
	if strings.HasPrefix(note, "seed") && ForFactor(src) > maxForFactor {
		c.Rep.Count("c05:mutants-skipped-for-counts-beyond-the-fixed-bound")
		return &sched.Outcome{MainDone: true}
	}
	k := &Case{Cfg: cfgArr(cfg), Src: src, Mode: "sync", Budget: budget, Note: note}
	c.Rep.States++
	o, w, err, pan := c.execute(k)
	c.judge(k, o, w, err, pan)
	return o
}

// exploreCase explores every schedule / chunking / map order of one case up
// to the deviation bound.
func (c *Ctx) exploreCase(k *Case, maxBound int, maxExecs int64) {
	c.Rep.States++
	// iterate the bound: the largest bound <= maxBound whose estimated number
	// of executions (choose(points, bound) x alternatives) fits the budget
	probe, _, _, _ := c.execute(k)
	alts := 0
	for _, p := range probe.Points {
		alts += p.N - 1
	}
	bound := 0
	est := float64(1)
	for b := 1; b <= maxBound; b++ {
		est = est * float64(alts-b+1) / float64(b)
		// deviating executions have more choice points than the default one
		if 4*est > float64(maxExecs) {
			break
		}
		bound = b
	}
	c.Rep.Count(fmt.Sprintf("c05:cases-explored-to-%s-bound-%d", k.Mode, bound))
	ex := &sched.Explorer{Bound: bound, Fine: k.Mode == "fine", Budget: k.Budget, MaxExecs: 10 * maxExecs, Deadline: c.Deadline}
	var lastW g.WarriorData
	var lastErr error
	var lastPan string
	outcomes := map[string]bool{}
	ex.Exec = func(s *sched.Sched) *sched.Outcome {
		kk := *k
		kk.Prefix = s.Prefix
		o, w, err, pan := c.execute(&kk)
		lastW, lastErr, lastPan = w, err, pan
		return o
	}
	ex.Check = func(o *sched.Outcome) {
		kk := *k
		kk.Prefix = o.Choices()
		c.judge(&kk, o, lastW, lastErr, lastPan)
		outcomes[fmt.Sprintf("%v|%v|%d", lastErr == nil, lastPan, len(lastW.Code))] = true
	}
	ex.Explore()
	if ex.Capped {
		c.Rep.Exhaustive = false
		c.Rep.Note(fmt.Sprintf("exploration of one case was capped at %d executions or by the tier time cap", 10*maxExecs))
	}
	c.Rep.Count("c05:explored-executions")
	c.Rep.Counters["c05:explored-executions"] += ex.Execs - 1
	if int64(ex.MaxLen) > c.Rep.Counters["c05:max-choice-points-in-one-execution"] {
		c.Rep.Counters["c05:max-choice-points-in-one-execution"] = int64(ex.MaxLen)
	}
}

// RunInst enumerates the scheduler-controlled spaces.
func (c *Ctx) RunInst(tier string) {
	thorough := tier == "thorough"
	rep := c.Rep
	const budget = 1000000

	// (A) lexeme strings
	L := 4
	if thorough {
		L = 5
	}
	fixed := Lexemes("")[:23]
	var rec func(cur []string, hasSpecial bool)
	rec = func(cur []string, hasSpecial bool) {
		if len(cur) > 0 && c.mine() && !c.expired() {
			specials := []string{""}
			if hasSpecial {
				specials = Specials
			}
			for _, sp := range specials {
				toks := make([]string, len(cur))
				for i, t := range cur {
					if t == "\x01" {
						toks[i] = sp
					} else {
						toks[i] = t
					}
				}
				src := Join(toks)
				c.runDefault(src, cfg94, budget, "lexeme string")
				if len(cur) < L {
					c.runDefault(src, cfgNano, budget, "lexeme string")
					c.runDefault(src, cfg88, budget, "lexeme string")
				}
			}
		}
		if len(cur) == L {
			return
		}
		for _, l := range fixed {
			rec(append(cur, l), hasSpecial)
		}
		if !hasSpecial {
			rec(append(cur, "\x01"), true)
		}
	}
	rec(nil, false)
	rep.Bound = fmt.Sprintf("instrumented build, default schedule, step budget 1e6 ticks: every string of <=%d lexemes over a 24-lexeme alphabet (the last slot rotating over %d special sequences: NUL, ^Z, 0xFF, =, &, !, CR-LF, comment, |, >, ==, a truncated UTF-8 sequence, non-ASCII digits / letters / spaces, operators glued to a letter, form feed, ...); lengths <%d under three configurations", L, len(Specials), L)

	if thorough {
		sub := []string{"a", "dat", "equ", "for", "rof", "0", "+", "(", ",", ";assert", "\n", "="}
		var rec6 func(cur []string)
		rec6 = func(cur []string) {
			if len(cur) == 6 {
				if c.mine() && !c.expired() {
					c.runDefault(Join(cur), cfg94, budget, "6 structural lexemes")
				}
				return
			}
			for _, l := range sub {
				rec6(append(cur, l))
			}
		}
		rec6(nil)
		rep.Bound += "; every string of exactly 6 lexemes over a 12-lexeme structural sub-alphabet (a dat equ for rof 0 + ( , ;assert newline =)"
	}

	// (A2) every string of <=2 lexemes (specials included) after a closed FOR
	// block, inside one, and after an ordinary instruction line
	prefixes := []string{"for 0\nrof\n", "i for 1\ndat i\nrof\n", "i for 2\ndat i\n", "dat 0\n", "x equ 1\n", "i for 0-1\ndat i\nrof\n"}
	all := append(append([]string{}, fixed...), Specials...)
	for _, pre := range prefixes {
		for _, a := range all {
			if !c.mine() || c.expired() {
				continue
			}
			c.runDefault(pre+a, cfg94, budget, "prefix + 1 lexeme")
			for _, b := range all {
				c.runDefault(pre+Join([]string{a, b}), cfg94, budget, "prefix + 2 lexemes")
				c.runDefault(pre+Join([]string{a, b})+"\nrof\n", cfg94, budget, "prefix + 2 lexemes + rof")
			}
		}
	}
	rep.Bound += "; every string of <=2 lexemes (all special byte sequences included) appended to 6 prefixes (closed FOR block, FOR with body, open FOR, instruction line, EQU line, FOR with a negative count), also followed by a closing ROF"

	// (B) seeds and their mutations
	lex := append(Lexemes("\x1a"), Specials...)
	for si, seed := range Seeds() {
		toks := Tokens(seed)
		o := c.runDefault(seed, cfg94, 4*budget, fmt.Sprintf("seed %d", si))
		t := o.Ticks
		if t > 200000 {
			t = 200000 // a seed that itself does not terminate must not inflate the budget of its mutations
		}
		b := 100*t + budget
		if len(toks) > 150 {
			// the long repository warriors: 1-token mutations on a stride
			stride := 7
			if thorough {
				stride = 2
			}
			n := 0
			Mutations1(toks, lex, func(m []string, what string) {
				n++
				if n%stride == 0 && c.mine() && !c.expired() {
					c.runDefault(Join(m), cfg94, b, fmt.Sprintf("seed %d %s", si, what))
				}
			})
			continue
		}
		Mutations1(toks, lex, func(m []string, what string) {
			mine := c.mine()
			if mine && !c.expired() {
				c.runDefault(Join(m), cfg94, b, fmt.Sprintf("seed %d %s", si, what))
				c.runDefault(Join(m), cfg88, b, fmt.Sprintf("seed %d %s", si, what))
			}
			if (thorough || len(toks) <= 14) && mine {
				Mutations1(m, lex, func(m2 []string, what2 string) {
					if !c.expired() {
						c.runDefault(Join(m2), cfg94, b, fmt.Sprintf("seed %d %s then %s", si, what, what2))
					}
				})
			}
		})
	}
	rep.Bound += fmt.Sprintf("; %d seed programs (repository warriors, FOR nest, EQU chain with ;assert, EQU cycle with ;assert, FOR failing half way, labels only, unterminated last line, text after END, ...) with every 1-token mutation (delete, duplicate, swap, substitute by each lexeme) and every 2-token mutation (quick: for the seeds of <=14 tokens); budget 100x the seed's own step count + 1e6", len(Seeds()))

	// (C) reader chunkings and read errors
	chunked := []string{"mov 0, 1\n", "a equ 1\ndat a\n", "i for 2\ndat i\nrof\n", "dat \xc3\xa9\n", ";assert 1\nnop\n", "x"}
	cb := 1
	fb, sb, execBudget := 2, 3, int64(40000)
	if thorough {
		cb = 2
		fb, sb, execBudget = 3, 5, 700000
	}
	for i, src := range chunked {
		if c.Sh.Mine(i) {
			c.exploreCase(&Case{Cfg: cfgArr(cfg94), Src: src, Mode: "sync", Chunk: true, Budget: budget, Note: "reader chunking"}, cb+1, execBudget)
		}
	}
	rep.Bound += fmt.Sprintf("; 6 inputs read through a reader whose every Read returns a prefix chosen by the explorer or an error (deviation bound %d)", cb)

	// (D) producer/consumer schedules of the lexer and FOR-expander goroutines
	forInputs := []string{
		"i for 2\ndat i\nrof\n",
		"i for 0\ndat i\nrof\ndat 1\n",
		"i for 1/0\ndat i\nrof\n",
		"i for 2\ndat i,\nrof\n",
		"i for 2\nj for 2\ndat i, j\nrof\nrof\n",
		"i for 2\ndat i\n",
		"i for x\ndat i\nrof\n",
		"a i for 1\nmov a, i\nrof\njmp a\n",
		"i for 0\ndat i\nrof\n",
		"i for 1\nrof\n=\n",
		"i for 0-1\ndat i\nrof\ndat 1\n",
	}
	for i, src := range forInputs {
		if c.Sh.Mine(i + 6) {
			c.exploreCase(&Case{Cfg: cfgArr(cfg94), Src: src, Mode: "sync", Budget: budget, Note: "producer/consumer schedules (sync points)"}, sb, execBudget)
			c.exploreCase(&Case{Cfg: cfgArr(cfg94), Src: src, Mode: "fine", Budget: budget, Note: "schedules at every function entry and loop iteration"}, fb, execBudget)
		}
	}
	rep.Bound += fmt.Sprintf("; 11 FOR inputs (a negative count, success, zero count, error in the count, error in the body, nested, unterminated, undefined count, labelled, a pass that emits nothing, a lexer error after the block): every schedule of consumer and producer goroutines with preemptions at synchronisation points and at every function entry / loop iteration, map orders included; per input the largest preemption bound (<=%d / <=%d) whose execution count fits a budget of %d executions, reported in the counters", sb, fb, execBudget)

	// (E) scaling family: the step count stays under a linear budget
	if c.Sh.I == c.Sh.N-1 {
		big := g.SimulatorConfig{Mode: g.ICWS94, CoreSize: 1 << 20, Processes: 8, Cycles: 10, ReadLimit: 1 << 20, WriteLimit: 1 << 20, Length: 300000, Distance: 100}
		fam := func(src string, lines int, note string) {
			b := int64(20000) * int64(len(src)+lines)
			o := c.runDefault(src, big, b, note)
			if int64(len(src)+lines) > 0 {
				r := o.Ticks / int64(len(src)+lines)
				if r > rep.Counters["c05:max-ticks-per-unit-of-size"] {
					rep.Counters["c05:max-ticks-per-unit-of-size"] = r
				}
			}
		}
		sizes := []int{1000, 2000, 4000}
		if thorough {
			sizes = []int{1000, 2000, 4000, 8000, 16000}
		}
		for _, n := range sizes {
			fam(strings.Repeat("mov 0, 1\n", n), n, fmt.Sprintf("%d instruction lines", n))
		}
		fam("i for 10000\ndat i\nrof\n", 10000, "one FOR of 10000")
		fam("i for 100\nj for 100\ndat i, j\nrof\nrof\n", 10000+100*100, "FOR 100 x 100")
		var sb strings.Builder
		for j := 0; j < 12; j++ {
			sb.WriteString("i for 1000\ndat i\nrof\n")
		}
		fam(sb.String(), 12000*12, "12 sequential FORs of 1000")
		// other shapes: many labels on one line, a long EQU chain, deep parentheses, a very long comment,
		// many undefined symbols, a long run of signs
		{
			var sb strings.Builder
			for i := 0; i < 2000; i++ {
				fmt.Fprintf(&sb, "l%d ", i)
			}
			sb.WriteString("dat 0\n")
			fam(sb.String(), 2000, "2000 labels on one instruction")
			sb.Reset()
			for i := 0; i < 150; i++ {
				fmt.Fprintf(&sb, "e%d equ e%d+1\n", i, i+1)
			}
			sb.WriteString("e150 equ 1\ndat e0\n")
			fam(sb.String(), 150*150, "chain of 150 EQUs")
			fam("dat "+strings.Repeat("(", 400)+"1"+strings.Repeat(")", 400)+"\n", 800, "400 nested parentheses")
			fam("dat 0 ;"+strings.Repeat("c", 1<<20)+"\n", 0, "a comment of 1 MiB")
			fam("dat "+strings.Repeat("-", 3000)+"1\n", 3000, "a run of 3000 signs")
			sb.Reset()
			for i := 0; i < 1500; i++ {
				fmt.Fprintf(&sb, "dat u%d\n", i)
			}
			fam(sb.String(), 1500, "1500 undefined symbols")
		}
		rep.Bound += "; further shapes (2000 labels on one line, a chain of 150 EQUs, 400 nested parentheses, a 1 MiB comment, a run of 3000 signs, 1500 undefined symbols); scaling family (1k..16k lines, FOR 10000, FOR 100x100, 12 FORs of 1000) under a budget of 20000 ticks per byte-or-expanded-line"
	}
	rep.Sample(Join([]string{"x", "equ", "x", "+", "1", "\n", ";assert", "x"}))
	rep.Sample("i for 1/0\ndat i\nrof\n")
}

func (c *Ctx) ReplayInst(k *Case) {
	c.Rep.States++
	o, w, err, pan := c.execute(k)
	c.judge(k, o, w, err, pan)
}

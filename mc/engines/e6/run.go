package e6

import "encoding/json"

// Run dispatches on the job: "inst" (scheduler-controlled) or "free".
func (c *Ctx) Run(job, tier string) {
	switch job {
	case "free":
		c.RunFree(tier)
	default:
		c.RunInst(tier)
	}
}

func (c *Ctx) Replay(wit string) error {
	var k Case
	if err := json.Unmarshal([]byte(wit), &k); err != nil {
		return err
	}
	if k.Mode == "free" {
		c.FreeRun(k.Src, arrCfg(k.Cfg), k.Note)
		return nil
	}
	c.ReplayInst(&k)
	return nil
}

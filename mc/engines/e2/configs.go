package e2

import (
	"fmt"
	"runtime"

	g "github.com/bobertlo/gmars"

	"verif/mc/hx"
)

// ConfigCase is one point of the configuration boundary product.
type ConfigCase struct {
	Mode                                 int
	Core, Procs, Cycles, R, W, Len, Dist uint64
}

func (c ConfigCase) String() string {
	return fmt.Sprintf("config mode=%d core=%d procs=%d cycles=%d R=%d W=%d len=%d dist=%d", c.Mode, c.Core, c.Procs, c.Cycles, c.R, c.W, c.Len, c.Dist)
}

func ParseConfigCase(s string) (ConfigCase, error) {
	var c ConfigCase
	_, err := fmt.Sscanf(s, "config mode=%d core=%d procs=%d cycles=%d R=%d W=%d len=%d dist=%d", &c.Mode, &c.Core, &c.Procs, &c.Cycles, &c.R, &c.W, &c.Len, &c.Dist)
	return c, err
}

// CheckConfig: creation fails with an error or the simulator supports the
// invariants on a hostile three-warrior battle. Never a panic.
func (ck *Checker) CheckConfig(cc ConfigCase) {
	rep := ck.Rep
	rep.States++
	fail := func(kind, detail string) {
		if rep.Hit("C04", kind) {
			rep.Add("C04", kind, cc.String(), detail)
		}
	}
	var stage string
	defer func() {
		if r := recover(); r != nil {
			fail("panic", fmt.Sprintf("%s: %v", stage, r))
		}
		if cc.Core >= 1<<16 || cc.Procs >= 1<<16 {
			runtime.GC()
		}
	}()
	cfg := g.SimulatorConfig{Mode: g.SimulatorMode(cc.Mode), CoreSize: g.Address(cc.Core), Processes: g.Address(cc.Procs), Cycles: g.Address(cc.Cycles),
		ReadLimit: g.Address(cc.R), WriteLimit: g.Address(cc.W), Length: g.Address(cc.Len), Distance: g.Address(cc.Dist)}
	stage = "NewReportingSimulator"
	sim, err := g.NewReportingSimulator(cfg)
	rep.Transitions++
	if err != nil {
		// (the returned interface value is not inspected on the error path:
		// the property only says creation is refused with an error)
		rep.Count("c04:configs-refused")
		return
	}
	if sim == nil {
		fail("neither-error-nor-simulator", "creation returned nil, nil")
		return
	}
	rep.Count("c04:configs-accepted")
	M := cc.Core
	if M == 0 {
		fail("zero-core-accepted", "a core of size 0 was accepted")
		return
	}
	hs3 := hostile(M)
	progs := [][]g.Instruction{hs3[1], hs3[9], hs3[11]}
	var hs []g.Warrior
	stage = "AddWarrior"
	for _, p := range progs {
		code := make([]g.Instruction, len(p))
		for i, x := range p {
			x.A %= g.Address(M)
			x.B %= g.Address(M)
			code[i] = x
		}
		h, err := sim.AddWarrior(&g.WarriorData{Code: code, Start: len(code) - 1})
		if err != nil {
			fail("add-warrior-error", err.Error())
			return
		}
		hs = append(hs, h)
	}
	stage = "SpawnWarrior"
	offs := []uint64{0, M / 2, M - 1}
	for i := range progs {
		if err := sim.SpawnWarrior(i, g.Address(offs[i])); err != nil {
			fail("spawn-error", err.Error())
			return
		}
	}
	n := cc.Cycles
	if n > 40 {
		n = 40
	}
	stage = "RunCycle"
	b := &Battle{M: M, P: cc.Procs, C: cc.Cycles}
	probe := []uint64{0, 1, 2, M / 2, M - 2, M - 1}
	for cyc := uint64(0); cyc <= n; cyc++ {
		sim.RunCycle()
		rep.Transitions++
		// invariants (the whole core for small cores, the neighbourhood of the warriors otherwise)
		var core []g.Instruction
		if M <= 64 {
			core = make([]g.Instruction, M)
			for a := uint64(0); a < M; a++ {
				core[a] = sim.GetMem(g.Address(a))
			}
		} else {
			for _, o := range probe {
				for d := uint64(0); d < 6; d++ {
					core = append(core, sim.GetMem(g.Address((o+d)%M)), sim.GetMem(g.Address((o+M-d)%M)))
				}
			}
		}
		saved := rep.Counters["viol:C04:field-range"]
		ck.invariantsAs(cc.String(), b, sim, hs, core, int(cyc))
		_ = saved
	}
}

// invariantsAs is invariants with a different witness string.
func (c *Checker) invariantsAs(witness string, b *Battle, sim g.ReportingSimulator, hs []g.Warrior, core []g.Instruction, cyc int) {
	before := len(c.Rep.Violations)
	c.invariants(b, sim, hs, core, cyc)
	for i := before; i < len(c.Rep.Violations); i++ {
		c.Rep.Violations[i].Witness = witness
	}
}

// ConfigGrid enumerates the boundary product of all seven configuration fields.
func ConfigGrid(thorough bool) []ConfigCase {
	big := uint64(1 << 20)
	cores := []uint64{0, 1, 2, 3, 4, 8, big}
	procs := []uint64{0, 1, 2, big}
	cycles := []uint64{0, 1, 2, big}
	lims := []uint64{0, 1, 2, 4, 5, big}
	lens := []uint64{0, 1, 4, 5, big}
	dists := []uint64{0, 1, 4, big}
	var out []ConfigCase
	for mode := 0; mode < 3; mode++ {
		for _, c := range cores {
			for _, p := range procs {
				for _, cy := range cycles {
					for _, r := range lims {
						for _, w := range lims {
							for _, l := range lens {
								for _, d := range dists {
									if !thorough && (c == big || p == big) {
										// quick: the million-cell core / queue only on the diagonal
										if !(r == w && l == 1 && d == 1 && cy == 2) {
											continue
										}
									}
									out = append(out, ConfigCase{mode, c, p, cy, r, w, l, d})
								}
							}
						}
					}
				}
			}
		}
	}
	// limits in relation to the core size: every read/write limit up to 4M+2
	// (the configuration check accepts limits above the core size; the nop256
	// preset has them), and the presets themselves
	for mode := 0; mode < 3; mode++ {
		for _, c := range []uint64{3, 4, 5, 8} {
			for r := uint64(1); r <= 4*c+2; r++ {
				for w := uint64(1); w <= 4*c+2; w++ {
					if !thorough && !(r == w || r == c || w == c || r == 1 || w == 1) {
						continue
					}
					out = append(out, ConfigCase{mode, c, 3, 40, r, w, 2, 0})
				}
			}
		}
	}
	for _, p := range []g.SimulatorConfig{g.ConfigKOTH88, g.ConfigICWS88, g.ConfigNOP94, g.ConfigNopTiny, g.ConfigNop256, g.ConfigNopNano} {
		out = append(out, ConfigCase{int(p.Mode), uint64(p.CoreSize), uint64(p.Processes), uint64(p.Cycles), uint64(p.ReadLimit), uint64(p.WriteLimit), uint64(p.Length), uint64(p.Distance)})
	}
	return out
}

func (r *runner) configs(thorough bool) {
	grid := ConfigGrid(thorough)
	for i, cc := range grid {
		if !r.sh.Mine(i) || r.expired() {
			continue
		}
		r.ck.CheckConfig(cc)
	}
	if len(grid) > 0 {
		r.rep.Sample(grid[len(grid)/2].String())
	}
}

var _ = hx.NForms

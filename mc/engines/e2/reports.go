package e2

import (
	"fmt"

	g "github.com/bobertlo/gmars"

	"verif/mc/hx"
	"verif/mc/ref"
)

type so struct {
	st  g.CoreState
	own int
}

// folder is the last-operation fold of the reference event stream: per cell
// the set of acceptable (state, owner) pairs.
type folder struct{ acc [][]so }

func newFolder(M uint64) *folder {
	f := &folder{acc: make([][]so, M)}
	for a := range f.acc {
		f.acc[a] = []so{{g.CoreEmpty, -1}}
	}
	return f
}

func (f *folder) set(a uint64, s so)    { f.acc[a] = []so{s} }
func (f *folder) addOpt(a uint64, s so) { f.acc[a] = append(f.acc[a], s) }

func (c *Checker) rangeCheck(b *Battle, reps []g.Report, what string) {
	for i, r := range reps {
		if uint64(r.Address) >= b.M {
			c.fail("C15", "address-range", b, func() string {
				return fmt.Sprintf("%s: report %d type %d carries address %d >= core size", what, i, r.Type, r.Address)
			})
		}
		switch r.Type {
		case g.SimReset, g.CycleStart, g.CycleEnd:
		default:
			if r.WarriorIndex < 0 || r.WarriorIndex >= len(b.Ws) {
				c.fail("C15", "warrior-index", b, func() string {
					return fmt.Sprintf("%s: report %d type %d carries warrior index %d", what, i, r.Type, r.WarriorIndex)
				})
			}
		}
	}
}

func (c *Checker) checkSpawnReports(b *Battle, lis *listener, fold *folder) {
	c.rangeCheck(b, lis.reps, "spawn")
	for i, w := range b.Ws {
		for k := range w.Code {
			fold.set((w.Off+uint64(k))%b.M, so{g.CoreWritten, i})
		}
	}
}

func (c *Checker) reports(b *Battle, lis *listener, hs []g.Warrior, heads []int64, final []g.Instruction, fold *folder, sr *g.StateRecorder, cyc int) {
	rep := c.Rep
	M := b.M
	c.rangeCheck(b, lis.reps, fmt.Sprintf("cycle %d", cyc))
	lastW := -1
	for i, t := range lis.tasks {
		rep.Traces++
		after := final
		repEnd := len(lis.reps)
		if i+1 < len(lis.tasks) {
			after = lis.tasks[i+1].Before
			repEnd = lis.tasks[i+1].RepStart - 1
		}
		if t.W < 0 || t.W >= len(hs) || t.PC >= M {
			continue // reported by rangeCheck
		}
		if t.W <= lastW {
			c.fail("C15", "task-order", b, func() string { return fmt.Sprintf("cycle %d: tasks %s", cyc, taskList(lis.tasks)) })
		}
		lastW = t.W
		if heads[t.W] != int64(t.PC) {
			c.fail("C15", "task-pop-pc", b, func() string {
				return fmt.Sprintf("cycle %d: WarriorTaskPop of warrior %d announces %d, the front of its queue was %d", cyc, t.W, t.PC, heads[t.W])
			})
		}
		// reports before the first pop of the cycle must not be task reports
		if i == 0 {
			for _, r := range lis.reps[:t.RepStart-1] {
				switch r.Type {
				case g.WarriorWrite, g.WarriorIncrement, g.WarriorDecrement, g.WarriorTaskTerminate, g.WarriorTerminate:
					c.fail("C15", "report-before-pop", b, func() string { return fmt.Sprintf("cycle %d: report type %d before the first task", cyc, r.Type) })
				}
			}
		}
		rc := make([]g.Instruction, M)
		copy(rc, t.Before)
		out := ref.Step(rc, M, b.R, b.W, t.PC)
		reported := map[uint64]bool{}
		taskTerm, warTerm := 0, 0
		for _, r := range lis.reps[t.RepStart:repEnd] {
			switch r.Type {
			case g.WarriorWrite, g.WarriorIncrement, g.WarriorDecrement:
				if r.WarriorIndex == t.W {
					reported[uint64(r.Address)] = true
				} else {
					c.fail("C15", "wrong-owner", b, func() string {
						return fmt.Sprintf("cycle %d task w%d@%d: mutation report names warrior %d", cyc, t.W, t.PC, r.WarriorIndex)
					})
				}
			case g.WarriorTaskTerminate:
				if r.WarriorIndex == t.W {
					taskTerm++
				}
			case g.WarriorTerminate:
				if r.WarriorIndex == t.W {
					warTerm++
				} else {
					c.fail("C15", "wrong-owner", b, func() string {
						return fmt.Sprintf("cycle %d task w%d@%d: WarriorTerminate names warrior %d", cyc, t.W, t.PC, r.WarriorIndex)
					})
				}
			}
		}
		may := map[uint64]bool{}
		for _, e := range out.Events {
			if e.Kind == ref.EvDec || e.Kind == ref.EvInc || e.Kind == ref.EvWrite {
				may[e.Addr] = true
			}
		}
		for a := uint64(0); a < M; a++ {
			if after[a] != t.Before[a] {
				rep.Count("c15:changed-cells")
				if !reported[a] {
					c.fail("C15", "unreported-change", b, func() string {
						return fmt.Sprintf("cycle %d task w%d@%d (%s): cell %d changed %s -> %s with no write/increment/decrement report of that warrior in that task",
							cyc, t.W, t.PC, hx.InsStr(t.Before[t.PC]), a, hx.InsStr(t.Before[a]), hx.InsStr(after[a]))
					})
				}
			}
		}
		for a := range reported {
			if !may[a] {
				c.fail("C15", "report-of-untouched-cell", b, func() string {
					return fmt.Sprintf("cycle %d task w%d@%d (%s): cell %d reported as mutated but the semantics cannot touch it", cyc, t.W, t.PC, hx.InsStr(t.Before[t.PC]), a)
				})
			}
		}
		noPush := len(out.Push) == 0
		if noPush != (taskTerm > 0) || taskTerm > 1 {
			c.fail("C15", "task-terminate", b, func() string {
				return fmt.Sprintf("cycle %d task w%d@%d (%s): queued nothing=%v but %d WarriorTaskTerminate reports", cyc, t.W, t.PC, hx.InsStr(t.Before[t.PC]), noPush, taskTerm)
			})
		}
		died := !hs[t.W].Alive()
		if died != (warTerm > 0) || warTerm > 1 {
			c.fail("C15", "warrior-terminate", b, func() string {
				return fmt.Sprintf("cycle %d task w%d@%d: warrior died=%v but %d WarriorTerminate reports", cyc, t.W, t.PC, died, warTerm)
			})
		}
		if died {
			rep.Count("c15:warrior-deaths")
		}
		// fold
		var termAt, writeAt int64 = -1, -1
		for _, e := range out.Events {
			var s g.CoreState
			switch e.Kind {
			case ref.EvPop:
				s = g.CoreExecuted
			case ref.EvDec:
				s = g.CoreDecremented
				rep.Count("c15:decrement-events")
			case ref.EvInc:
				s = g.CoreIncremented
				rep.Count("c15:increment-events")
			case ref.EvWrite:
				s = g.CoreWritten
				writeAt = int64(e.Addr)
			case ref.EvTaskTerm:
				s = g.CoreTerminated
				termAt = int64(e.Addr)
			}
			if e.Optional {
				fold.addOpt(e.Addr, so{s, t.W})
			} else {
				fold.set(e.Addr, so{s, t.W})
			}
		}
		if termAt >= 0 && termAt == writeAt {
			fold.addOpt(uint64(termAt), so{g.CoreWritten, t.W})
			fold.addOpt(uint64(termAt), so{g.CoreTerminated, t.W})
		}
	}
	for a := uint64(0); a < M; a++ {
		st, own := sr.GetMemState(g.Address(a))
		ok := false
		for _, s := range fold.acc[a] {
			if s.st == st && s.own == own {
				ok = true
			}
		}
		if !ok {
			c.fail("C15", "recorder-state", b, func() string {
				return fmt.Sprintf("after cycle %d: recorder shows cell %d as (state %d, warrior %d); last operation by the semantics: %v", cyc, a, st, own, fold.acc[a])
			})
			// resynchronise so that one missing report is reported once
			fold.set(a, so{st, own})
		}
	}
}

// manyResets: one simulator and one StateRecorder through hundreds of
// battles separated by Reset; after every Reset every address must read as
// empty with owner -1, whatever earlier battles did to it.
func (c *Checker) manyResets(M uint64, n int) {
	rep := c.Rep
	rep.States++
	b := &Battle{M: M, R: M, W: M, P: 2, C: 4, ResetAt: -n} // a negative ResetAt below -1 marks a reset series of that length
	al := Alphabet(M)
	b.Ws = []WSpec{{[]g.Instruction{al[2], al[0]}, 0, 0}, {[]g.Instruction{al[2]}, 0, 4}} // JMP 0 / DAT and JMP 0: they stay where they are
	var pan string
	func() {
		defer func() {
			if r := recover(); r != nil {
				pan = fmt.Sprint(r)
			}
		}()
		sim, err := g.NewReportingSimulator(b.config())
		if err != nil {
			pan = err.Error()
			return
		}
		sr := g.NewStateRecorder(sim)
		sim.AddReporter(sr)
		for _, w := range b.Ws {
			sim.AddWarrior(&g.WarriorData{Code: w.Code, Start: w.Start})
		}
		for k := 0; k < n; k++ {
			// only the first battle and every 9973rd touch the low addresses; the
			// others stay in the middle of the core
			off := uint64(0)
			if k%9973 != 0 {
				off = M/2 + uint64(k%5)
			}
			if k%13 == 5 {
				// a spawn that wraps past the end of the core while nothing else touches the low cells
				off = M - 1
			}
			sim.SpawnWarrior(0, g.Address(off))
			if k%13 == 5 {
				sim.SpawnWarrior(1, g.Address(M/2))
			} else {
				sim.SpawnWarrior(1, g.Address(off+2))
			}
			sim.RunCycle()
			sim.RunCycle()
			rep.Transitions += 2
			sim.Reset()
			rep.Traces++
			for a := uint64(0); a < M; a++ {
				if st, own := sr.GetMemState(g.Address(a)); st != g.CoreEmpty || own != -1 {
					c.fail("C15", "recorder-after-reset", b, func() string {
						return fmt.Sprintf("after reset number %d the recorder shows cell %d as (state %d, warrior %d)", k+1, a, st, own)
					})
					return
				}
			}
		}
	}()
	if pan != "" {
		c.fail("C15", "panic", b, func() string { return "many resets: " + pan })
	}
	rep.Count("c15:reset-series")
}

// manyWarriors: a simulator holding n warriors (n beyond 8 and 16 bits), a
// few of which are spawned: every report must carry the index of the warrior
// it concerns and the recorder must show that index as the owner of the
// warrior's cells. The witness is a battle without warrior list whose process
// limit field carries n.
func (c *Checker) manyWarriors(M uint64, n int) {
	rep := c.Rep
	rep.States++
	b := &Battle{M: M, R: M, W: M, P: uint64(n), C: 2, ResetAt: -1}
	var pan string
	func() {
		defer func() {
			if r := recover(); r != nil {
				pan = fmt.Sprint(r)
			}
		}()
		cfg := b.config()
		cfg.Processes = 2
		sim, err := g.NewReportingSimulator(cfg)
		if err != nil {
			pan = err.Error()
			return
		}
		lis := &listener{sim: sim, M: M, noSnap: true}
		sim.AddReporter(lis)
		sr := g.NewStateRecorder(sim)
		sim.AddReporter(sr)
		imp := []g.Instruction{Alphabet(M)[3]}
		hs := make([]g.Warrior, n)
		for i := 0; i < n; i++ {
			h, err := sim.AddWarrior(&g.WarriorData{Code: imp, Start: 0})
			if err != nil {
				pan = err.Error()
				return
			}
			hs[i] = h
		}
		var picks []int
		for _, i := range []int{0, 127, 128, 255, 256, 32767, 32768, 40000, 65535, 65536, n - 1} {
			if i < n && (len(picks) == 0 || picks[len(picks)-1] != i) {
				picks = append(picks, i)
			}
		}
		for k, i := range picks {
			off := uint64(k) * 5 % M
			lis.reps = lis.reps[:0]
			if err := sim.SpawnWarrior(i, g.Address(off)); err != nil {
				c.fail("C15", "many-warriors", b, func() string { return fmt.Sprintf("SpawnWarrior(%d): %v", i, err) })
				return
			}
			for _, r := range lis.reps {
				if r.Type == g.WarriorSpawn && r.WarriorIndex != i {
					c.fail("C15", "many-warriors", b, func() string { return fmt.Sprintf("spawn report of warrior %d carries index %d", i, r.WarriorIndex) })
				}
			}
			if _, own := sr.GetMemState(g.Address(off)); own != i {
				c.fail("C15", "many-warriors", b, func() string {
					return fmt.Sprintf("after the spawn of warrior %d at %d the recorder shows owner %d", i, off, own)
				})
			}
		}
		lis.reps = lis.reps[:0]
		lis.tasks = lis.tasks[:0]
		sim.RunCycle()
		rep.Transitions++
		rep.Traces++
		// one task per spawned warrior, in index order; each imp writes the next cell and moves there
		if len(lis.tasks) != len(picks) {
			c.fail("C15", "many-warriors", b, func() string {
				return fmt.Sprintf("%d warriors were spawned, %d tasks were reported", len(picks), len(lis.tasks))
			})
			return
		}
		for k, i := range picks {
			off := uint64(k) * 5 % M
			if lis.tasks[k].W != i || lis.tasks[k].PC != off {
				c.fail("C15", "many-warriors", b, func() string {
					return fmt.Sprintf("task %d of the cycle: reported warrior %d at %d, expected warrior %d at %d", k, lis.tasks[k].W, lis.tasks[k].PC, i, off)
				})
			}
			if _, own := sr.GetMemState(g.Address((off + 1) % M)); own != i {
				c.fail("C15", "many-warriors", b, func() string {
					return fmt.Sprintf("warrior %d wrote cell %d; the recorder shows owner %d", i, (off+1)%M, own)
				})
			}
			if q := hs[i].Queue(); len(q) != 1 || uint64(q[0]) != (off+1)%M {
				c.fail("C15", "many-warriors", b, func() string { return fmt.Sprintf("queue of warrior %d is %v", i, q) })
			}
		}
		for _, r := range lis.reps {
			if r.WarriorIndex < 0 || r.WarriorIndex >= n {
				c.fail("C15", "many-warriors", b, func() string { return fmt.Sprintf("a report carries warrior index %d", r.WarriorIndex) })
				break
			}
		}
	}()
	if pan != "" {
		c.fail("C15", "panic", b, func() string { return "many warriors: " + pan })
	}
	rep.Count("c15:many-warrior-simulators")
}

// streamFold is an independent last-operation fold of the report stream with
// read reports included; it is compared with a StateRecorder that records
// reads (C15: the recorder shows kind and owner of the last reported
// operation for every address).
type streamFold struct {
	M     uint64
	lens  []int
	state []g.CoreState
	owner []int
}

func newStreamFold(b *Battle) *streamFold {
	f := &streamFold{M: b.M, state: make([]g.CoreState, b.M), owner: make([]int, b.M)}
	for _, w := range b.Ws {
		f.lens = append(f.lens, len(w.Code))
	}
	f.clear()
	return f
}

func (f *streamFold) clear() {
	for a := range f.state {
		f.state[a], f.owner[a] = g.CoreEmpty, -1
	}
}

func (f *streamFold) Report(r g.Report) {
	set := func(a uint64, s g.CoreState) {
		if a < f.M {
			f.state[a], f.owner[a] = s, r.WarriorIndex
		}
	}
	switch r.Type {
	case g.SimReset:
		f.clear()
	case g.WarriorSpawn:
		if r.WarriorIndex >= 0 && r.WarriorIndex < len(f.lens) {
			for i := 0; i < f.lens[r.WarriorIndex]; i++ {
				set((uint64(r.Address)+uint64(i))%f.M, g.CoreWritten)
			}
		}
	case g.WarriorTaskPop:
		set(uint64(r.Address), g.CoreExecuted)
	case g.WarriorTaskTerminate:
		set(uint64(r.Address), g.CoreTerminated)
	case g.WarriorWrite:
		set(uint64(r.Address), g.CoreWritten)
	case g.WarriorRead:
		set(uint64(r.Address), g.CoreRead)
	case g.WarriorIncrement:
		set(uint64(r.Address), g.CoreIncremented)
	case g.WarriorDecrement:
		set(uint64(r.Address), g.CoreDecremented)
	}
}

// compareReadRecorder compares the read-recording StateRecorder with the fold.
func (c *Checker) compareReadRecorder(b *Battle, sr2 *g.StateRecorder, f *streamFold, cyc int) {
	for a := uint64(0); a < b.M; a++ {
		st, own := sr2.GetMemState(g.Address(a))
		if st != f.state[a] || own != f.owner[a] {
			c.fail("C15", "recorder-state-with-reads", b, func() string {
				return fmt.Sprintf("cycle %d cell %d: the read-recording recorder shows (state %d, warrior %d); the last report about the cell gives (state %d, warrior %d)", cyc, a, st, own, f.state[a], f.owner[a])
			})
			return
		}
	}
}

package e2

import (
	"fmt"
	"time"

	g "github.com/bobertlo/gmars"

	"verif/mc/hx"
)

func ins(op g.OpCode, md g.OpMode, am g.AddressMode, a int, bm g.AddressMode, b int, M uint64) g.Instruction {
	m := int(M)
	return g.Instruction{Op: op, OpMode: md, AMode: am, A: g.Address(((a % m) + m) % m), BMode: bm, B: g.Address(((b % m) + m) % m)}
}

// Alphabet is the 16-instruction scheduling alphabet, most scheduling-relevant
// first (prefixes of it are used for the larger products).
func Alphabet(M uint64) []g.Instruction {
	D, I, P := g.DIRECT, g.IMMEDIATE, g.B_DECREMENT
	return []g.Instruction{
		ins(g.DAT, g.F, D, 0, D, 0, M),             // death
		ins(g.SPL, g.B, D, 0, D, 0, M),             // split onto itself
		ins(g.JMP, g.B, D, 0, D, 0, M),             // stays forever
		ins(g.MOV, g.I, D, 0, D, 1, M),             // imp
		ins(g.SEQ, g.I, D, 0, D, 1, M),             // skip (taken when followed by a copy of itself)
		ins(g.JMP, g.B, D, -1, D, 0, M),            // loop back
		ins(g.SPL, g.B, D, 1, D, 0, M),             // split forward
		ins(g.MOV, g.I, D, 1, g.B_INCREMENT, 2, M), // copies through a post-incremented pointer
		ins(g.MOV, g.I, D, 2, P, -1, M),            // bomb behind with pre-decrement
		ins(g.SPL, g.B, D, -1, D, 0, M),            // split backwards
		ins(g.DJN, g.B, D, 0, I, 2, M),             // counts itself down
		ins(g.DIV, g.AB, I, 0, D, 1, M),            // death by division
		ins(g.MOV, g.I, D, 1, D, 3, M),             // bomb ahead
		ins(g.NOP, g.B, D, 0, D, 0, M),             // fall through
		ins(g.SNE, g.B, I, 0, D, 0, M),             // skip on a non-zero B-field
		ins(g.ADD, g.AB, I, 1, D, -1, M),           // modifies the previous cell
		ins(g.JMZ, g.B, D, -1, D, 1, M),            // jumps back while the next cell's B-field is zero
		ins(g.JMN, g.B, D, -1, D, 0, M),            // jumps back while its own B-field is non-zero (it is zero: falls through)
		ins(g.MOV, g.I, g.B_DECREMENT, 1, D, 2, M), // A operand with a pre-decrement
		ins(g.JMP, g.B, g.A_INCREMENT, 1, D, 0, M), // A operand with a post-increment
	}
}

// Programs returns every program of length 1..maxLen over the first n letters.
func Programs(alpha []g.Instruction, n, maxLen int) [][]g.Instruction {
	var out [][]g.Instruction
	var rec func(cur []g.Instruction)
	rec = func(cur []g.Instruction) {
		if len(cur) > 0 {
			out = append(out, append([]g.Instruction{}, cur...))
		}
		if len(cur) == maxLen {
			return
		}
		for i := 0; i < n; i++ {
			rec(append(cur, alpha[i]))
		}
	}
	// length-major order: all programs of length 1 first
	for l := 1; l <= maxLen; l++ {
		var gen func(cur []g.Instruction)
		gen = func(cur []g.Instruction) {
			if len(cur) == l {
				out = append(out, append([]g.Instruction{}, cur...))
				return
			}
			for i := 0; i < n; i++ {
				gen(append(cur, alpha[i]))
			}
		}
		gen(nil)
	}
	_ = rec
	return out
}

func starts(p []g.Instruction) []int {
	if len(p) == 1 {
		return []int{0}
	}
	if len(p) == 2 {
		return []int{0, 1}
	}
	return []int{0, len(p) - 1}
}

type runner struct {
	ck       *Checker
	rep      *hx.Report
	sh       hx.Shard
	deadline time.Time
	stop     bool
	last     *Battle
}

func (r *runner) expired() bool {
	if r.stop {
		return true
	}
	if hungRuns > 0 {
		r.stop = true
		r.rep.Exhaustive = false
		r.rep.Note("a Run() call did not return; the worker stopped its enumeration there")
		return true
	}
	if !r.deadline.IsZero() && time.Now().After(r.deadline) {
		r.stop = true
		r.rep.Exhaustive = false
		r.rep.Note("tier time cap reached; the enumeration was cut short")
	}
	return r.stop
}

func (r *runner) run(b *Battle) {
	if hungRuns > 0 {
		return
	}
	r.ck.Check(b)
	r.last = b
}

func (r *runner) sample() {
	if r.last != nil {
		r.rep.Sample(r.last.String())
	}
}

// singles: every program alone.
func (r *runner) singles(M uint64, progs [][]g.Instruction, lims [][2]uint64, C uint64) {
	for pi, p := range progs {
		if !r.sh.Mine(pi) || r.expired() {
			continue
		}
		for _, st := range starts(p) {
			for _, P := range []uint64{1, 2, 3} {
				for _, off := range []uint64{0, M - 1} {
					for _, l := range lims {
						r.run(&Battle{M: M, R: l[0], W: l[1], P: P, C: C, ResetAt: -1, Ws: []WSpec{{p, st, off}}})
					}
				}
			}
		}
	}
	r.sample()
}

// pairs: every ordered pair, second warrior at every offset.
func (r *runner) pairs(M uint64, progs [][]g.Instruction, ps []uint64, cs []uint64, lims [][2]uint64, allStarts bool) {
	for pi, p := range progs {
		if !r.sh.Mine(pi) || r.expired() {
			continue
		}
		for _, q := range progs {
			sp, sq := starts(p), starts(q)
			if !allStarts {
				sp, sq = sp[:1], sq[len(sq)-1:]
			}
			for off := uint64(1); off < M; off++ {
				for _, s1 := range sp {
					for _, s2 := range sq {
						for _, P := range ps {
							for _, C := range cs {
								for _, l := range lims {
									r.run(&Battle{M: M, R: l[0], W: l[1], P: P, C: C, ResetAt: -1, Ws: []WSpec{{p, s1, 0}, {q, s2, off}}})
								}
							}
						}
					}
				}
			}
		}
	}
	r.sample()
}

// triples of one-instruction programs at every pair of distinct offsets.
func (r *runner) triples(M uint64, alpha []g.Instruction, n int, ps []uint64, C uint64, lims [][2]uint64) {
	for i := 0; i < n; i++ {
		if !r.sh.Mine(i) || r.expired() {
			continue
		}
		for j := 0; j < n; j++ {
			for k := 0; k < n; k++ {
				for o2 := uint64(1); o2 < M; o2++ {
					for o3 := uint64(1); o3 < M; o3++ {
						if o2 == o3 {
							continue
						}
						for _, P := range ps {
							for _, l := range lims {
								r.run(&Battle{M: M, R: l[0], W: l[1], P: P, C: C, ResetAt: -1, Ws: []WSpec{
									{[]g.Instruction{alpha[i]}, 0, 0}, {[]g.Instruction{alpha[j]}, 0, o2}, {[]g.Instruction{alpha[k]}, 0, o3}}})
							}
						}
					}
				}
			}
		}
	}
	r.sample()
}

// quads of one-instruction programs at spacing 2.
func (r *runner) quads(M uint64, alpha []g.Instruction, n int, C uint64) {
	for i := 0; i < n; i++ {
		if !r.sh.Mine(i) || r.expired() {
			continue
		}
		for j := 0; j < n; j++ {
			for k := 0; k < n; k++ {
				for l := 0; l < n; l++ {
					for _, P := range []uint64{1, 2, 3} {
						r.run(&Battle{M: M, R: M, W: M, P: P, C: C, ResetAt: -1, Ws: []WSpec{
							{[]g.Instruction{alpha[i]}, 0, 0}, {[]g.Instruction{alpha[j]}, 0, 2}, {[]g.Instruction{alpha[k]}, 0, 4}, {[]g.Instruction{alpha[l]}, 0, 6}}})
					}
				}
			}
		}
	}
	r.sample()
}

// hostile opponents for the C04 product.
func hostile(M uint64) [][]g.Instruction {
	D, I, P, A := g.DIRECT, g.IMMEDIATE, g.B_DECREMENT, g.B_INDIRECT
	return [][]g.Instruction{
		{ins(g.MOV, g.I, D, 0, D, 1, M)},                                              // imp
		{ins(g.MOV, g.I, D, 2, P, -1, M), ins(g.JMP, g.B, D, -1, D, 0, M)},            // backward core clear
		{ins(g.MOV, g.I, D, 1, g.B_INCREMENT, 1, M), ins(g.JMP, g.B, D, -1, D, 1, M)}, // forward clear with post-increment
		{ins(g.SPL, g.B, D, 0, D, 0, M), ins(g.MOV, g.I, D, -1, D, 1, M)},             // spl carpet
		{ins(g.DJN, g.F, D, 0, P, -1, M)},                                             // self-decrementing DJN stream
		{ins(g.DJN, g.X, g.A_DECREMENT, 1, g.A_INCREMENT, -1, M)},                     // djn with A-number modes
		{ins(g.ADD, g.F, I, M2(M), D, 1, M), ins(g.JMP, g.B, D, -1, D, 0, M)},         // adds into its neighbour
		{ins(g.SUB, g.X, g.A_INDIRECT, 1, A, -1, M), ins(g.JMP, g.B, D, -1, D, 0, M)},
		{ins(g.MUL, g.I, g.A_INCREMENT, 1, g.A_DECREMENT, 1, M), ins(g.JMP, g.B, D, -1, D, 0, M)},
		{ins(g.MOV, g.X, g.B_INCREMENT, -1, g.B_DECREMENT, 1, M), ins(g.SPL, g.B, D, -1, D, 0, M)},
		{ins(g.MOD, g.BA, A, 1, D, -1, M), ins(g.DIV, g.AB, D, -1, g.A_INCREMENT, 1, M)},
		{ins(g.SPL, g.B, g.B_DECREMENT, 1, D, 0, M), ins(g.SPL, g.B, g.B_INCREMENT, -1, D, 0, M)},
	}
}

func M2(M uint64) int { return int(M) - 1 }

func (r *runner) hostileProduct(M uint64, ps []uint64, fields [][2]uint64, offs []uint64) {
	hs := hostile(M)
	// hostile programs start at their last instruction for the offset that
	// makes the entry point wrap past the end of the core
	startOf := func(h []g.Instruction, off uint64) int {
		if off%M == M-1 {
			return len(h) - 1
		}
		return 0
	}
	for f := 0; f < hx.NForms; f++ {
		if !r.sh.Mine(f) || r.expired() {
			continue
		}
		for _, ab := range fields {
			w1 := []g.Instruction{hx.Mk(f, ab[0]%M, ab[1]%M)}
			for _, h := range hs {
				for _, off := range offs {
					for _, P := range ps {
						r.run(&Battle{M: M, R: M, W: M, P: P, C: 30, ResetAt: -1, Ws: []WSpec{{w1, 0, 0}, {h, startOf(h, off), off % M}}})
					}
				}
			}
		}
	}
	r.sample()
}

// Run enumerates the battle spaces of a property and tier.
func Run(rep *hx.Report, props Props, tier string, sh hx.Shard, deadline time.Time) {
	r := &runner{ck: &Checker{Rep: rep, Props: props}, rep: rep, sh: sh, deadline: deadline}
	thorough := tier == "thorough"
	const M = 8
	alpha := Alphabet(M)
	full := [][2]uint64{{M, M}}
	switch {
	case props.C02:
		r.longRuns(M)
		if thorough {
			// other core sizes (odd, and one where programs cannot reach each other at once)
			for _, m2 := range []uint64{5, 13} {
				al2 := Alphabet(m2)
				r.singles(m2, Programs(al2, 10, 2), [][2]uint64{{m2, m2}}, 20)
				r.pairs(m2, Programs(al2, 8, 2), []uint64{1, 2, 4}, []uint64{20}, [][2]uint64{{m2, m2}}, false)
			}
			rep.Bound = "M in {5,13}: all programs of length 1..2 over 10 letters alone and all ordered pairs over 8 letters x every offset x P in {1,2,4}; M=8: all programs of length 1..2 over the 20 letters and length 3 over 10 letters alone (P 1..3, 2 offsets, every entry point); all ordered pairs of the 420 short programs x offsets 1..7 x P 1..3 x entry points x cycle limit 24, and x every cycle limit 1..6 at P=2; all triples of one-instruction programs x all offset pairs x P 1..2; all quadruples over 10 letters x P 1..3; all ordered pairs over 10 letters with process limits 5, 6, 7, 9, 17 and 40 cycles, and under read/write limits (3,4) (4,3) (1,8) (8,2) (5,5)"
			r.singles(M, append(Programs(alpha, 20, 2), Programs(alpha, 10, 3)[110:]...), full, 24)
			p2 := Programs(alpha, 20, 2)
			r.pairs(M, p2, []uint64{1, 2, 3}, []uint64{24}, full, true)
			r.pairs(M, p2, []uint64{2}, []uint64{1, 2, 3, 4, 5, 6}, full, false)
			r.triples(M, alpha, 20, []uint64{1, 2}, 16, full)
			r.quads(M, alpha, 10, 12)
			r.pairs(M, Programs(alpha, 10, 2), []uint64{5, 6, 7, 9, 17}, []uint64{40}, full, false)
			r.pairs(M, Programs(alpha, 10, 2), []uint64{2}, []uint64{24}, [][2]uint64{{3, 4}, {4, 3}, {1, 8}, {8, 2}, {5, 5}}, false)
			r.classics([]uint64{80, 256, 800, 4096, 8000, 65536}, []uint64{8, 64, 8000}, 80000, true)
			rep.Bound += "; eight complete warriors of 1..10 instructions (imp, dwarf, replicator, scanner, paper, arithmetic loop, counting loop with split, clear): each alone, every ordered pair at two spacings, every triple of the first five, on cores of 80, 256, 800, 4096, 8000, 65536 cells x process limits 8, 64, 8000 x limits (M,M) and (M/4, M/8+3), 80000 cycles in lock step (cells touched by the reference after every cycle, the whole core every 509th), then Run()"
		} else {
			rep.Bound = "five long runs (300 and 70000 cycles, 300 / 257 / 70000 processes); M=8: all programs of length 1..2 over 16 letters alone; all ordered pairs of them x offsets 1..7 x P 1..3 x cycle limit 16; all ordered pairs over 8 letters x every entry point x cycle limits 1..4 at P=2; all triples over 10 letters x all offset pairs at P in {1,2}; all quadruples over 6 letters; all ordered pairs over 7 letters with process limits 5, 6, 9"
			p2 := Programs(alpha, 16, 2)
			r.singles(M, p2, full, 16)
			r.pairs(M, p2, []uint64{1, 2, 3}, []uint64{16}, full, false)
			r.pairs(M, Programs(alpha, 8, 2), []uint64{2}, []uint64{1, 2, 3, 4}, full, true)
			r.triples(M, alpha, 10, []uint64{1, 2}, 12, full)
			r.quads(M, alpha, 6, 10)
			// larger process limits (queues that grow well past 4 entries and wrap their ring)
			r.pairs(M, Programs(alpha, 7, 2), []uint64{5, 6, 9}, []uint64{24}, full, false)
			r.classics([]uint64{80, 256, 4096, 8000}, []uint64{8, 64, 8000}, 6000, false)
			rep.Bound += "; eight complete warriors of 1..10 instructions (imp, dwarf, replicator, scanner, paper, arithmetic loop, counting loop with split, clear): each alone and every ordered pair at two spacings on cores of 80, 256, 4096, 8000 cells x process limits 8, 64, 8000 x limits (M,M) and (M/4, M/8+3), 6000 cycles in lock step (cells touched by the reference after every cycle, the whole core every 509th), then Run()"
		}
	case props.C12:
		if sh.I == 0 {
			// a core above 2^16 cells: the generic rotations cover every shift only for tiny cores
			m := uint64(70001)
			al := Alphabet(m)
			for _, p := range [][]g.Instruction{{al[3]}, {al[8], al[5]}, {al[4], al[4]}, {al[7], al[0]}} {
				for _, off := range []uint64{0, 65535, 65536, 69999, 70000} {
					b := &Battle{M: m, R: m, W: m, P: 3, C: 12, ResetAt: -1, Ws: []WSpec{{p, len(p) - 1, off}, {[]g.Instruction{al[2]}, 0, off + 35000}}}
					r.ck.bigRotation(b, BigShifts(m))
				}
			}
		}
		// complete warriors on larger cores under the chosen shifts
		if thorough {
			r.classics([]uint64{64, 257, 4096}, []uint64{8, 300}, 3000, true)
		} else {
			r.classics([]uint64{257}, []uint64{8}, 1500, false)
		}
		c12sizes := []uint64{8, 5}
		if thorough {
			c12sizes = []uint64{8, 5, 13}
		}
		for _, m := range c12sizes {
			al := Alphabet(m)
			lims := [][2]uint64{{m, m}, {3, 4}}
			// warriors as long as the core, and one cell shorter: the image
			// meets itself around the core end
			var full [][]g.Instruction
			for k := 0; k < len(al); k++ {
				for _, L := range []int{int(m), int(m) - 1} {
					p := make([]g.Instruction, L)
					for i := range p {
						p[i] = al[(k+3*i)%len(al)]
					}
					full = append(full, p)
				}
			}
			r.singles(m, full, lims, 12)
			r.pairs(m, [][]g.Instruction{full[0], full[1], full[6], full[7], {al[1]}, {al[3]}}, []uint64{2}, []uint64{12}, lims[:1], false)
			if thorough {
				rep.Bound = "M in {8,5,13}, limits (M,M) and (3,4): all programs of length 1..2 over the 20 letters and of length 3 over 10 letters alone; all ordered pairs of programs of length 1..2 over 14 letters x every offset x every entry point at P=2, and over 8 letters at P in {1,3}; all triples over 10 letters x all offset pairs; 40 warriors of length M and M-1 alone and 6 of them in pairs; each x every shift in [0,M) x offset spellings off+jM, j in 0..2, and the largest one below 2^64"
				r.singles(m, Programs(al, len(al), 2), lims, 12)
				r.singles(m, Programs(al, 10, 3)[110:], lims[:1], 12) // the 1000 three-instruction programs over 10 letters
				r.pairs(m, Programs(al, 14, 2), []uint64{2}, []uint64{12}, lims, true)
				r.pairs(m, Programs(al, 8, 2), []uint64{1, 3}, []uint64{12}, lims[:1], false)
				r.triples(m, al, 10, []uint64{2}, 10, lims[:1])
				rep.Bound += "; eight complete warriors of 1..10 instructions alone, in every ordered pair at two spacings and in triples on cores of 64 (every shift), 257 and 4096 cells (shifts 1, 65535, 65536, 65537, M-1, M, M+1, 3M+7 and a multiple of M just below 2^64), process limits 8 and 300, 3000 cycles; a 70001-cell core with offsets around 2^16"
			} else {
				rep.Bound = "M in {8,5}, limits (M,M) and (3,4): all programs of length 1..2 over the 20-letter alphabet and of length 3 over 6 letters alone (first and last instruction as entry point); all ordered pairs of programs of length 1..2 over 6 letters x every offset at P=2; all triples over 5 letters; 40 warriors of length M and M-1 alone and 6 of them in pairs; each x every shift x 4 offset spellings (off+jM for j in 0..2 and the largest one below 2^64)"
				r.singles(m, Programs(al, len(al), 2), lims, 10)
				r.singles(m, Programs(al, 6, 3)[42:], lims[:1], 10) // the 216 three-instruction programs over 6 letters
				r.pairs(m, Programs(al, 6, 2), []uint64{2}, []uint64{10}, lims, true)
				r.triples(m, al, 5, []uint64{2}, 8, lims[:1])
				rep.Bound += "; eight complete warriors of 1..10 instructions alone and in every ordered pair at two spacings on a 257-cell core (shifts 1, 65535, 65536, 65537, M-1, M, M+1, 3M+7 and a multiple of M just below 2^64), 1500 cycles; a 70001-cell core with offsets around 2^16"
			}
		}
	case props.C04:
		// queues that fill up to process limits that are neither small nor powers of two
		{
			ring, fan, sit := []g.Instruction{alpha[1], alpha[5]}, []g.Instruction{alpha[6], alpha[9]}, []g.Instruction{alpha[2]}
			for pi, P := range []uint64{63, 64, 65, 100, 129, 1000, 1025} {
				if !sh.Mine(pi) || r.expired() {
					continue
				}
				for _, p := range [][]g.Instruction{ring, fan} {
					r.run(&Battle{M: M, R: M, W: M, P: P, C: 2*P + 20, ResetAt: -1, Ws: []WSpec{{p, 0, 0}, {sit, 0, 4}}})
				}
			}
			r.sample()
		}
		if thorough {
			rep.Bound = "process bombs filling queues of 63, 64, 65, 100, 129, 1000, 1025 tasks for 2P+20 cycles; every one-instruction warrior (7616 forms x 4 field pairs) against 12 hostile programs, M in {8,3}, P in {1,2,5}, every load offset, 30 cycles, invariants after every cycle; eight complete warriors of 1..10 instructions alone, in pairs and in triples on a 64-cell core, process limits 3, 8, 64, 2000 cycles"
			r.hostileProduct(8, []uint64{1, 2, 5}, [][2]uint64{{1, 7}, {7, 1}, {0, 0}, {2, 3}}, []uint64{1, 2, 3, 4, 5, 6, 7})
			r.hostileProduct(3, []uint64{1, 2, 5}, [][2]uint64{{1, 2}, {2, 1}, {0, 0}, {2, 2}}, []uint64{1, 2})
			r.classics([]uint64{64}, []uint64{3, 8, 64}, 2000, true)
			r.configs(true)
			rep.Bound += "; boundary product of all 7 configuration fields x 3 modes (241920 configurations): creation errors or a hostile 3-warrior battle of min(cycles,40) cycles under the invariants; every read x write limit in 1..4M+2 for M in {3,4,5,8}; the six presets"
		} else {
			rep.Bound = "process bombs filling queues of 63, 64, 65, 100, 129, 1000, 1025 tasks for 2P+20 cycles; every one-instruction warrior (7616 forms x 2 field pairs) against 12 hostile programs, M=8, P in {1,3}, offsets {1,4,7}, 30 cycles, invariants after every cycle; eight complete warriors of 1..10 instructions alone and in every ordered pair on a 64-cell core, process limit 8, 600 cycles"
			r.hostileProduct(8, []uint64{1, 3}, [][2]uint64{{1, 7}, {0, 3}}, []uint64{1, 4, 7})
			r.classics([]uint64{64}, []uint64{8}, 600, false)
			r.configs(false)
			rep.Bound += "; boundary product of the configuration fields x 3 modes with the 2^20 core/process values on a diagonal only; read/write limits 1..4M+2 for M in {3,4,5,8} (equal, or one of them 1 or M); the six presets"
		}
	case props.C15:
		if sh.I == 0 {
			r.ck.manyResets(64, 70000)
		}
		if sh.I == 1%sh.N {
			for _, n := range []int{5, 300, 70000} {
				r.ck.manyWarriors(64, n)
			}
		}
		if thorough {
			rep.Bound = "one simulator (M=64) through 70000 battles separated by Reset, most of them away from the cells the first one touched; simulators holding 5, 300 and 70000 warriors with eleven of them (indices around 2^7, 2^8, 2^15, 2^16 and the last) spawned and run; recording listener + StateRecorder on: all programs of length 1..2 over 16 letters alone; all ordered pairs of programs of length 1..2 over 12 letters x offsets x P 1..2; triples over 8 letters; 12-letter programs with Reset after every cycle count 0..6; load offsets M, M+3, 2M+7, 5M; eight complete warriors of 1..10 instructions alone, in pairs and in triples on a 64-cell core, process limits 3, 8, 64, 2000 cycles"
			p2 := Programs(alpha, 12, 2)
			r.singles(M, Programs(alpha, 16, 2), full, 16)
			r.pairs(M, p2, []uint64{1, 2}, []uint64{16}, full, false)
			r.triples(M, alpha, 8, []uint64{2}, 10, full)
			r.resets(M, Programs(alpha, 12, 2), 6)
			r.bigOffsets(M, Programs(alpha, 12, 2))
			r.classics([]uint64{64}, []uint64{3, 8, 64}, 2000, true)
		} else {
			rep.Bound = "one simulator (M=64) through 70000 battles separated by Reset, most of them away from the cells the first one touched; simulators holding 5, 300 and 70000 warriors with eleven of them (indices around 2^7, 2^8, 2^15, 2^16 and the last) spawned and run; recording listener + StateRecorder on: all programs of length 1..2 over 12 letters alone; all ordered pairs of programs of length 1..2 over 8 letters x offsets at P=2; triples over 5 letters; 8-letter programs with Reset after every cycle count 0..4; load offsets M, M+3, 2M+7, 5M; eight complete warriors of 1..10 instructions alone and in every ordered pair on a 64-cell core, process limit 8, 600 cycles"
			r.singles(M, Programs(alpha, 12, 2), full, 12)
			r.pairs(M, Programs(alpha, 8, 2), []uint64{2}, []uint64{12}, full, false)
			r.triples(M, alpha, 5, []uint64{2}, 8, full)
			r.resets(M, Programs(alpha, 8, 2), 4)
			r.bigOffsets(M, Programs(alpha, 8, 2))
			r.classics([]uint64{64}, []uint64{8}, 600, false)
		}
	default:
		rep.Note(fmt.Sprintf("engine e2 has no space for props %+v", props))
	}
}

// resets: a program against the imp with a Reset (and respawn) after k cycles.
func (r *runner) resets(M uint64, progs [][]g.Instruction, maxK int) {
	imp := []g.Instruction{Alphabet(M)[3]}
	for pi, p := range progs {
		if !r.sh.Mine(pi) || r.expired() {
			continue
		}
		for k := 0; k <= maxK; k++ {
			r.run(&Battle{M: M, R: M, W: M, P: 2, C: 12, ResetAt: k, Ws: []WSpec{{p, 0, 0}, {imp, 0, 4}}})
		}
	}
	r.sample()
}

// bigOffsets: load offsets at and above the core size (reports must carry reduced addresses).
func (r *runner) bigOffsets(M uint64, progs [][]g.Instruction) {
	imp := []g.Instruction{Alphabet(M)[3]}
	for pi, p := range progs {
		if !r.sh.Mine(pi) || r.expired() {
			continue
		}
		for _, off := range []uint64{M, M + 3, 2*M + 7, 5 * M} {
			r.run(&Battle{M: M, R: M, W: M, P: 2, C: 8, ResetAt: -1, Ws: []WSpec{{p, len(p) - 1, off}, {imp, 0, off + 4}}})
		}
	}
	r.sample()
}

// longRuns: cycle counts and process counts beyond 8 and 16 bits.
func (r *runner) longRuns(M uint64) {
	al := Alphabet(M)
	imp, ring0, ring1, sit, dat := []g.Instruction{al[3]}, []g.Instruction{al[1], al[5]}, []g.Instruction{al[6], al[5]}, []g.Instruction{al[2]}, []g.Instruction{al[0]}
	cases := []*Battle{
		{M: M, R: M, W: M, P: 2, C: 300, ResetAt: -1, Ws: []WSpec{{imp, 0, 0}}},
		{M: M, R: M, W: M, P: 2, C: 70000, ResetAt: -1, Ws: []WSpec{{imp, 0, 0}, {sit, 0, 4}}},
		{M: M, R: M, W: M, P: 300, C: 700, ResetAt: -1, Ws: []WSpec{{ring0, 0, 0}, {sit, 0, 4}}},
		{M: M, R: M, W: M, P: 70000, C: 150000, ResetAt: -1, Ws: []WSpec{{ring0, 0, 0}}},
		{M: M, R: M, W: M, P: 257, C: 66000, ResetAt: -1, Ws: []WSpec{{ring1, 0, 0}, {imp, 0, 5}, {dat, 0, 3}}},
	}
	for i, b := range cases {
		if r.sh.Mine(i) && !r.expired() {
			r.run(b)
		}
	}
	r.sample()
}

// Package e2 is the battle engine: it enumerates whole battles (warrior sets
// over a small instruction alphabet, load offsets, entry points, process and
// cycle limits), drives gmars cycle by cycle in lock step with the reference
// scheduler, compares Run() with stepping, checks placement independence and
// the report stream. It serves C02, C12, C04 and C15.
package e2

import (
	"fmt"
	"strings"
	"time"

	g "github.com/bobertlo/gmars"

	"verif/mc/hx"
	"verif/mc/ref"
)

type Props struct{ C02, C12, C04, C15 bool }

func ParseProps(s string) Props {
	var p Props
	for _, x := range strings.Split(s, ",") {
		switch x {
		case "C02":
			p.C02 = true
		case "C12":
			p.C12 = true
		case "C04":
			p.C04 = true
		case "C15":
			p.C15 = true
		}
	}
	return p
}

type WSpec struct {
	Code  []g.Instruction
	Start int
	Off   uint64
}

type Battle struct {
	M, R, W, P, C uint64
	Ws            []WSpec
	ResetAt       int // C15: reset after this many cycles and respawn (-1: never)
}

func (b *Battle) String() string {
	var sb strings.Builder
	fmt.Fprintf(&sb, "M=%d R=%d W=%d P=%d C=%d reset=%d", b.M, b.R, b.W, b.P, b.C, b.ResetAt)
	for _, w := range b.Ws {
		fmt.Fprintf(&sb, " ; off=%d start=%d code=%s", w.Off, w.Start, hx.CoreStr(w.Code))
	}
	return sb.String()
}

func ParseBattle(s string) (*Battle, error) {
	parts := strings.Split(s, " ; ")
	b := &Battle{}
	if _, err := fmt.Sscanf(parts[0], "M=%d R=%d W=%d P=%d C=%d reset=%d", &b.M, &b.R, &b.W, &b.P, &b.C, &b.ResetAt); err != nil {
		return nil, err
	}
	for _, p := range parts[1:] {
		var w WSpec
		i := strings.Index(p, "code=")
		if i < 0 {
			return nil, fmt.Errorf("no code in %q", p)
		}
		if _, err := fmt.Sscanf(p[:i], "off=%d start=%d", &w.Off, &w.Start); err != nil {
			return nil, err
		}
		c, err := hx.ParseCore(p[i+5:])
		if err != nil {
			return nil, err
		}
		w.Code = c
		b.Ws = append(b.Ws, w)
	}
	return b, nil
}

func (b *Battle) config() g.SimulatorConfig {
	return g.SimulatorConfig{Mode: g.ICWS94, CoreSize: g.Address(b.M), Processes: g.Address(b.P), Cycles: g.Address(b.C),
		ReadLimit: g.Address(b.R), WriteLimit: g.Address(b.W), Length: g.Address(b.M), Distance: 0}
}

type taskObs struct {
	W        int
	PC       uint64
	Before   []g.Instruction
	RepStart int
}

// listener records every report and snapshots the core at every task start.
type listener struct {
	sim   g.ReportingSimulator
	M     uint64
	reps  []g.Report
	tasks []taskObs
	// noSnap: no core snapshot per task (cores above 64 cells)
	noSnap bool
}

func (l *listener) snap() []g.Instruction {
	c := make([]g.Instruction, l.M)
	for a := uint64(0); a < l.M; a++ {
		c[a] = l.sim.GetMem(g.Address(a))
	}
	return c
}

func (l *listener) Report(r g.Report) {
	l.reps = append(l.reps, r)
	if r.Type == g.WarriorTaskPop && l.noSnap {
		l.tasks = append(l.tasks, taskObs{W: r.WarriorIndex, PC: uint64(r.Address), RepStart: len(l.reps)})
	} else if r.Type == g.WarriorTaskPop {
		l.tasks = append(l.tasks, taskObs{W: r.WarriorIndex, PC: uint64(r.Address), Before: l.snap(), RepStart: len(l.reps)})
	}
}

// hungRuns counts Run() calls that never returned: each leaves a spinning
// goroutine behind, so the worker ends its enumeration after the first one.
var hungRuns int

// Final is the observable end state of a battle.
type Final struct {
	Panic  string
	Hung   bool
	Res    []bool
	Cycles int
	Core   []g.Instruction
	Queues [][]g.Address
	Alive  []bool
}

// RunWhole runs the battle with one Run() call on a fresh simulator, every
// offset shifted by shift.
func RunWhole(b *Battle, shift uint64) (f Final) {
	return RunAfter(b, shift, 0)
}

// RunAfter is RunWhole with pre RunCycle calls made before Run().
func RunAfter(b *Battle, shift uint64, pre int) (f Final) {
	done := make(chan Final, 1)
	go func() {
		var f Final
		defer func() {
			if r := recover(); r != nil {
				f.Panic = fmt.Sprint(r)
			}
			done <- f
		}()
		sim, err := g.NewSimulator(b.config())
		if err != nil {
			f.Panic = "config rejected: " + err.Error()
			return
		}
		var hs []g.Warrior
		for _, w := range b.Ws {
			h, err := sim.AddWarrior(&g.WarriorData{Code: w.Code, Start: w.Start})
			if err != nil {
				f.Panic = "AddWarrior: " + err.Error()
				return
			}
			hs = append(hs, h)
		}
		for i, w := range b.Ws {
			if err := sim.SpawnWarrior(i, g.Address(w.Off+shift)); err != nil {
				f.Panic = "SpawnWarrior: " + err.Error()
				return
			}
		}
		for i := 0; i < pre; i++ {
			sim.RunCycle()
		}
		f.Res = sim.Run()
		f.Cycles = sim.CycleCount()
		f.Core = make([]g.Instruction, b.M)
		for a := uint64(0); a < b.M; a++ {
			f.Core[a] = sim.GetMem(g.Address(a))
		}
		for _, h := range hs {
			f.Queues = append(f.Queues, h.Queue())
			f.Alive = append(f.Alive, h.Alive())
		}
	}()
	timer := time.NewTimer(20 * time.Second)
	defer timer.Stop() // (time.After would keep every timer alive for its whole period)
	select {
	case f = <-done:
		return f
	case <-timer.C:
		// a battle of a few dozen cycles takes microseconds; Run() is spinning
		hungRuns++
		return Final{Hung: true}
	}
}

type Checker struct {
	Rep   *hx.Report
	Props Props
}

func (c *Checker) fail(prop, kind string, b *Battle, detail func() string) {
	if c.Rep.Hit(prop, kind) {
		c.Rep.Add(prop, kind, b.String(), detail())
	}
}

func (c *Checker) plist() []string {
	var ps []string
	if c.Props.C02 {
		ps = append(ps, "C02")
	}
	if c.Props.C04 {
		ps = append(ps, "C04")
	}
	if c.Props.C15 {
		ps = append(ps, "C15")
	}
	return ps
}

func newRef(b *Battle) *ref.Mars {
	m := ref.NewMars(b.M, b.R, b.W, b.P, b.C)
	for range b.Ws {
		m.Add()
	}
	for i, w := range b.Ws {
		m.Spawn(i, w.Code, w.Start, w.Off)
	}
	return m
}

// Check runs every selected oracle on one battle.
func (c *Checker) Check(b *Battle) {
	if b.ResetAt < -1 {
		if c.Props.C15 {
			c.manyResets(b.M, -b.ResetAt)
		}
		return
	}
	if len(b.Ws) == 0 && b.P > 1000 {
		// a simulator with that many warriors (reports.go: manyWarriors)
		if c.Props.C15 {
			c.manyWarriors(b.M, int(b.P))
		}
		return
	}
	c.Rep.States++
	if b.M > 64 && (c.Props.C02 || c.Props.C04) {
		c.stepwiseBig(b)
	} else if c.Props.C02 || c.Props.C04 || c.Props.C15 {
		c.stepwise(b)
	}
	if c.Props.C12 {
		if b.M > 64 {
			// large cores: chosen shifts instead of every shift (also on replay)
			c.Rep.States--
			c.bigRotation(b, BigShifts(b.M))
		} else {
			c.rotations(b)
		}
	}
}

func eqCore(a, b []g.Instruction) bool {
	if len(a) != len(b) {
		return false
	}
	for i := range a {
		if a[i] != b[i] {
			return false
		}
	}
	return true
}

func eqQ(a []g.Address, b []uint64) bool {
	if len(a) != len(b) {
		return false
	}
	for i := range a {
		if uint64(a[i]) != b[i] {
			return false
		}
	}
	return true
}

func (c *Checker) stepwise(b *Battle) {
	rep := c.Rep
	var panicked string
	var stage string
	func() {
		defer func() {
			if r := recover(); r != nil {
				panicked = fmt.Sprint(r)
			}
		}()
		stage = "create"
		sim, err := g.NewReportingSimulator(b.config())
		if err != nil {
			panicked = "config rejected: " + err.Error()
			return
		}
		lis := &listener{sim: sim, M: b.M}
		sim.AddReporter(lis)
		var sr, sr2 *g.StateRecorder
		var sf *streamFold
		if c.Props.C15 {
			sr = g.NewStateRecorder(sim)
			sim.AddReporter(sr)
			sr2 = g.NewStateRecorder(sim)
			sr2.SetRecordRead(true)
			sim.AddReporter(sr2)
			sf = newStreamFold(b)
			sim.AddReporter(sf)
		}
		var hs []g.Warrior
		for _, w := range b.Ws {
			h, err := sim.AddWarrior(&g.WarriorData{Code: w.Code, Start: w.Start})
			if err != nil {
				panicked = "AddWarrior: " + err.Error()
				return
			}
			hs = append(hs, h)
		}
		stage = "spawn"
		for i, w := range b.Ws {
			if err := sim.SpawnWarrior(i, g.Address(w.Off)); err != nil {
				panicked = "SpawnWarrior: " + err.Error()
				return
			}
		}
		m := newRef(b)
		var fold *folder
		if c.Props.C15 {
			fold = newFolder(b.M)
			c.checkSpawnReports(b, lis, fold)
		}
		stage = "cycle"
		agree := true
		for cyc := 0; m.Active(); cyc++ {
			if c.Props.C15 && b.ResetAt == cyc {
				stage = "reset"
				sim.Reset()
				for a := uint64(0); a < b.M; a++ {
					if st, own := sr.GetMemState(g.Address(a)); st != g.CoreEmpty || own != -1 {
						c.fail("C15", "recorder-after-reset", b, func() string { return fmt.Sprintf("cell %d shows (%d,%d) after Reset", a, st, own) })
					}
				}
				lis.reps = lis.reps[:0]
				for i, w := range b.Ws {
					if err := sim.SpawnWarrior(i, g.Address(w.Off)); err != nil {
						c.fail("C15", "respawn-after-reset", b, func() string { return err.Error() })
						return
					}
				}
				m = newRef(b)
				fold = newFolder(b.M)
				c.checkSpawnReports(b, lis, fold)
				rep.Count("c15:resets")
				stage = "cycle"
			}
			before := m.Living
			completed := m.Cycle()
			lis.tasks = lis.tasks[:0]
			lis.reps = lis.reps[:0]
			heads := make([]int64, len(hs))
			if c.Props.C15 {
				for i, h := range hs {
					heads[i] = -1
					if q := h.Queue(); len(q) > 0 {
						heads[i] = int64(q[0])
					}
				}
			}
			ret := sim.RunCycle()
			rep.Transitions++
			final := lis.snap()
			if c.Props.C02 {
				if !c.compare02(b, sim, lis, hs, m, cyc, ret, final, before, completed, "") {
					agree = false
				}
			}
			if c.Props.C04 {
				c.invariants(b, sim, hs, final, cyc)
			}
			if c.Props.C15 {
				c.reports(b, lis, hs, heads, final, fold, sr, cyc)
				c.compareReadRecorder(b, sr2, sf, cyc)
			}
			if !agree {
				return
			}
			if cyc > int(b.C)+2 {
				break
			}
		}
		if c.Props.C04 && len(b.Ws) > 1 {
			// a second round in the same simulator in which only the first warrior is started again:
			// the counters and alive flags must still agree with each other
			stage = "second round"
			sim.Reset()
			if err := sim.SpawnWarrior(0, g.Address(b.Ws[0].Off)); err == nil {
				for k := 0; k < 3; k++ {
					sim.RunCycle()
					rep.Transitions++
					alive := 0
					for _, h := range hs {
						if h.Alive() {
							alive++
						}
					}
					if sim.WarriorLivingCount() != alive {
						c.fail("C04", "living-count", b, func() string {
							return fmt.Sprintf("after Reset and a respawn of warrior 0 only: living count %d, %d warriors report alive", sim.WarriorLivingCount(), alive)
						})
						break
					}
					if q := hs[0].Queue(); hs[0].Alive() != (len(q) > 0) || uint64(len(q)) > b.P {
						c.fail("C04", "alive-iff-tasks", b, func() string {
							return fmt.Sprintf("after Reset and a respawn of warrior 0: alive=%v queue=%v", hs[0].Alive(), q)
						})
						break
					}
				}
			}
			rep.Count("c04:second-rounds-after-reset")
		}
		if c.Props.C02 && !c.Props.C15 && agree && b.C <= 24 {
			// a second round on the same simulator: Reset, the same warriors at the
			// same places, the same lock-step comparison (whatever the first battle
			// left behind besides core and queues must not matter)
			stage = "second round"
			sim.Reset()
			for i, w := range b.Ws {
				if err := sim.SpawnWarrior(i, g.Address(w.Off)); err != nil {
					panicked = "second round: SpawnWarrior: " + err.Error()
					return
				}
			}
			m2 := newRef(b)
			for cyc := 0; m2.Active() && cyc <= int(b.C)+2; cyc++ {
				m2.Cycle()
				lis.tasks = lis.tasks[:0]
				lis.reps = lis.reps[:0]
				ret := sim.RunCycle()
				rep.Transitions++
				if !c.compare02(b, sim, lis, hs, m2, cyc, ret, lis.snap(), 0, true, "second round after Reset, ") {
					break
				}
			}
			rep.Count("c02:second-rounds-after-reset")
		}
		if c.Props.C02 {
			if m.Cycles >= m.MaxCycles {
				rep.Count("c02:stopped-by-cycle-limit")
			} else if len(b.Ws) == 1 {
				rep.Count("c02:lone-warrior-death")
			} else {
				rep.Count("c02:single-survivor")
			}
			// Run() on a fresh simulator must end in the same state.
			// Run() on a fresh simulator, and after one and after three stepped cycles
			for _, pre := range []int{0, 1, 3} {
				if pre > 0 && (len(b.Ws) > 2 || b.C > 24) {
					continue
				}
				c.compareRun(b, m, pre)
			}
		}
	}()
	if panicked != "" {
		for _, p := range c.plist() {
			c.fail(p, "panic", b, func() string { return stage + ": " + panicked })
		}
	}
}

// compare02 is the per-cycle C02 comparison of gmars with the reference
// scheduler (round names the round for the second-round check).
func (c *Checker) compare02(b *Battle, sim g.ReportingSimulator, lis *listener, hs []g.Warrior, m *ref.Mars, cyc int, ret int, final []g.Instruction, before int, completed bool, round string) bool {
	rep := c.Rep
	agree := true
	rep.Traces++
	if round != "" {
		completed, before = true, m.Living // the vacuity counters describe first rounds only
	}
	if !completed {
		rep.Count("c02:decided-mid-cycle")
	}
	if before-m.Living >= 2 {
		rep.Count("c02:two-deaths-in-one-cycle")
	}
	for _, t := range m.Tasks {
		if round != "" {
			break
		}
		if t.Died {
			rep.Count(fmt.Sprintf("c02:death-at-position-%d", t.W))
		}
		if len(t.Pushed) < len(t.Out.Push) {
			rep.Count("c02:split-dropped-at-limit")
		}
	}
	ok := len(lis.tasks) == len(m.Tasks)
	if ok {
		for i := range m.Tasks {
			if lis.tasks[i].W != m.Tasks[i].W || lis.tasks[i].PC != m.Tasks[i].PC {
				ok = false
			}
		}
	}
	if !ok {
		agree = false
		c.fail("C02", "executed-tasks", b, func() string {
			return fmt.Sprintf(round+"cycle %d: gmars executed %s, reference %s", cyc, taskList(lis.tasks), refTaskList(m.Tasks))
		})
	}
	if ret != m.Living || sim.WarriorLivingCount() != m.Living {
		agree = false
		c.fail("C02", "living-count", b, func() string {
			return fmt.Sprintf(round+"cycle %d: RunCycle returned %d, WarriorLivingCount %d, reference %d", cyc, ret, sim.WarriorLivingCount(), m.Living)
		})
	}
	if uint64(sim.CycleCount()) != m.Cycles {
		agree = false
		c.fail("C02", "cycle-count", b, func() string {
			return fmt.Sprintf(round+"cycle %d: CycleCount %d, reference completed cycles %d", cyc, sim.CycleCount(), m.Cycles)
		})
	}
	for i, h := range hs {
		if len(m.Ws[i].Q) > 256 && cyc%997 != 0 && m.Active() {
			// very long queues are compared every 997th cycle and at the end
			if h.Alive() != m.Ws[i].Alive {
				agree = false
				c.fail("C02", "queue", b, func() string {
					return fmt.Sprintf(round+"cycle %d warrior %d: alive=%v, reference %v", cyc, i, h.Alive(), m.Ws[i].Alive)
				})
			}
			continue
		}
		if h.Alive() != m.Ws[i].Alive || !eqQ(h.Queue(), m.Ws[i].Q) {
			agree = false
			c.fail("C02", "queue", b, func() string {
				return fmt.Sprintf(round+"cycle %d warrior %d: alive=%v queue=%v, reference alive=%v queue=%v", cyc, i, h.Alive(), h.Queue(), m.Ws[i].Alive, m.Ws[i].Q)
			})
		}
	}
	if !eqCore(final, m.Core) {
		agree = false
		c.fail("C02", "core", b, func() string {
			return fmt.Sprintf(round+"cycle %d: core %s, reference %s", cyc, hx.CoreStr(final), hx.CoreStr(m.Core))
		})
	}

	return agree
}

// compareRun: Run() (after pre stepped cycles) must end in the reference's final state.
func (c *Checker) compareRun(b *Battle, m *ref.Mars, pre int) {
	rep := c.Rep
	{
		{
			f := RunAfter(b, 0, pre)
			rep.Transitions++
			rep.Traces++
			switch {
			case f.Hung:
				c.fail("C02", "run-does-not-return", b, func() string { return "Run() did not return within 20 s (stepping needs microseconds)" })
			case f.Panic != "":
				c.fail("C02", "panic", b, func() string { return "Run(): " + f.Panic })
			default:
				ok := f.Cycles == int(m.Cycles) && eqCore(f.Core, m.Core) && len(f.Res) == len(m.Ws)
				if ok {
					for i := range m.Ws {
						ok = ok && f.Res[i] == m.Ws[i].Alive && f.Alive[i] == m.Ws[i].Alive && eqQ(f.Queues[i], m.Ws[i].Q)
					}
				}
				if !ok {
					c.fail("C02", "run-vs-stepping", b, func() string {
						if b.M > 64 {
							return fmt.Sprintf("Run() after %d stepped cycles: result=%v cycles=%d, %d queues; stepping/reference: cycles=%d; %s", pre, f.Res, f.Cycles, len(f.Queues), m.Cycles, diffCore(f.Core, m.Core))
						}
						return fmt.Sprintf("Run() after %d stepped cycles: result=%v cycles=%d core=%s queues=%v; stepping/reference: cycles=%d core=%s", pre, f.Res, f.Cycles, hx.CoreStr(f.Core), f.Queues, m.Cycles, hx.CoreStr(m.Core))
					})
				}
			}
		}
	}
}

func taskList(ts []taskObs) string {
	var s []string
	for _, t := range ts {
		s = append(s, fmt.Sprintf("w%d@%d", t.W, t.PC))
	}
	return "[" + strings.Join(s, " ") + "]"
}

func refTaskList(ts []ref.Task) string {
	var s []string
	for _, t := range ts {
		s = append(s, fmt.Sprintf("w%d@%d", t.W, t.PC))
	}
	return "[" + strings.Join(s, " ") + "]"
}

func (c *Checker) invariants(b *Battle, sim g.ReportingSimulator, hs []g.Warrior, core []g.Instruction, cyc int) {
	M := b.M
	for a, x := range core {
		if uint64(x.A) >= M || uint64(x.B) >= M || x.Op > g.NOP || x.OpMode > g.I || x.AMode > g.B_INCREMENT || x.BMode > g.B_INCREMENT {
			c.fail("C04", "field-range", b, func() string { return fmt.Sprintf("cycle %d cell %d = %s", cyc, a, hx.InsStr(x)) })
		}
	}
	alive := 0
	for i, h := range hs {
		q := h.Queue()
		for _, pc := range q {
			if uint64(pc) >= M {
				c.fail("C04", "pc-range", b, func() string { return fmt.Sprintf("cycle %d warrior %d queue %v", cyc, i, q) })
			}
		}
		if uint64(len(q)) > b.P {
			c.fail("C04", "process-limit", b, func() string { return fmt.Sprintf("cycle %d warrior %d queue %v", cyc, i, q) })
		}
		if uint64(len(q)) == b.P {
			c.Rep.Count("c04:queue-at-limit")
		}
		if h.Alive() {
			alive++
		}
		if h.Alive() != (len(q) > 0) {
			c.fail("C04", "alive-iff-tasks", b, func() string { return fmt.Sprintf("cycle %d warrior %d alive=%v queue=%v", cyc, i, h.Alive(), q) })
		}
	}
	if sim.WarriorLivingCount() != alive {
		c.fail("C04", "living-count", b, func() string { return fmt.Sprintf("cycle %d living=%d alive=%d", cyc, sim.WarriorLivingCount(), alive) })
	}
	if sim.CycleCount() > int(b.C) {
		c.fail("C04", "cycle-limit", b, func() string { return fmt.Sprintf("cycle count %d > %d", sim.CycleCount(), b.C) })
	}
	if alive < len(hs) {
		c.Rep.Count("c04:states-with-a-dead-warrior")
	}
}

// rotations checks placement independence: Run() with every shift and every
// congruent spelling of the offsets against shift 0.
func (c *Checker) rotations(b *Battle) {
	rep := c.Rep
	base := RunWhole(b, 0)
	rep.Transitions++
	if base.Hung || base.Panic != "" {
		c.fail("C12", "panic", b, func() string { return fmt.Sprintf("shift 0: hung=%v panic=%s", base.Hung, base.Panic) })
		return
	}
	M := b.M
	var maxOff uint64
	for _, w := range b.Ws {
		if w.Off > maxOff {
			maxOff = w.Off
		}
	}
	for j := uint64(0); j < 4; j++ {
		for k := uint64(0); k < M; k++ {
			if j == 0 && k == 0 {
				continue
			}
			sh := k + j*M
			if j == 3 {
				// the largest spelling: the highest offset lands within M of 2^64
				sh = k + (^uint64(0)-k-maxOff)/M*M
				rep.Count("c12:offsets-just-below-2^64")
			}
			f := RunWhole(b, sh)
			rep.Transitions++
			rep.Traces++
			if f.Hung || f.Panic != "" {
				c.fail("C12", "panic", b, func() string { return fmt.Sprintf("shift %d: hung=%v panic=%s", sh, f.Hung, f.Panic) })
				continue
			}
			same := f.Cycles == base.Cycles
			for i := range base.Res {
				same = same && f.Res[i] == base.Res[i] && f.Alive[i] == base.Alive[i] && len(f.Queues[i]) == len(base.Queues[i])
				if same {
					for x := range base.Queues[i] {
						same = same && (uint64(base.Queues[i][x])+k)%M == uint64(f.Queues[i][x])
					}
				}
			}
			for a := uint64(0); a < M; a++ {
				same = same && f.Core[(a+k)%M] == base.Core[a]
			}
			if !same {
				c.fail("C12", "rotation", b, func() string {
					return fmt.Sprintf("shift %d: result=%v cycles=%d core=%s queues=%v; shift 0: result=%v cycles=%d core=%s queues=%v",
						sh, f.Res, f.Cycles, hx.CoreStr(f.Core), f.Queues, base.Res, base.Cycles, hx.CoreStr(base.Core), base.Queues)
				})
			}
			wraps := false
			for _, w := range b.Ws {
				if (w.Off+sh)%M+uint64(len(w.Code)) > M {
					wraps = true
				}
			}
			if wraps {
				rep.Count("c12:placements-wrapping-the-core-end")
			}
		}
	}
	alive := 0
	for _, a := range base.Alive {
		if a {
			alive++
		}
	}
	if alive < len(base.Alive) {
		rep.Count("c12:battles-with-a-death")
	}
}

// bigRotation: placement independence for a large core under chosen shifts
// (queues and the cells around the warriors are compared, not the whole core).
func (c *Checker) bigRotation(b *Battle, shifts []uint64) {
	rep := c.Rep
	rep.States++
	base := RunWhole(b, 0)
	rep.Transitions++
	if base.Hung || base.Panic != "" {
		c.fail("C12", "panic", b, func() string { return fmt.Sprintf("shift 0: hung=%v panic=%s", base.Hung, base.Panic) })
		return
	}
	M := b.M
	// and a multiple of M that puts the highest offset just below 2^64
	var maxOff uint64
	for _, w := range b.Ws {
		if w.Off > maxOff {
			maxOff = w.Off
		}
	}
	shifts = append(append([]uint64{}, shifts...), (^uint64(0)-maxOff)/M*M, (^uint64(0)-maxOff)/M*M-M+1)
	for _, sh := range shifts {
		f := RunWhole(b, sh)
		rep.Transitions++
		rep.Traces++
		if f.Hung || f.Panic != "" {
			c.fail("C12", "panic", b, func() string { return fmt.Sprintf("shift %d: hung=%v panic=%s", sh, f.Hung, f.Panic) })
			continue
		}
		k := sh % M
		same := f.Cycles == base.Cycles
		for i := range base.Res {
			same = same && f.Res[i] == base.Res[i] && len(f.Queues[i]) == len(base.Queues[i])
			if same {
				for x := range base.Queues[i] {
					same = same && (uint64(base.Queues[i][x])+k)%M == uint64(f.Queues[i][x])
				}
			}
		}
		for a := uint64(0); a < M && same; a++ {
			same = f.Core[(a+k)%M] == base.Core[a]
		}
		if !same {
			c.fail("C12", "rotation", b, func() string {
				return fmt.Sprintf("shift %d: result=%v cycles=%d queues=%v; shift 0: result=%v cycles=%d queues=%v", sh, f.Res, f.Cycles, f.Queues, base.Res, base.Cycles, base.Queues)
			})
		}
	}
}

// BigShifts are the shifts tried for a large core.
func BigShifts(m uint64) []uint64 {
	return []uint64{1, 65535, 65536, 65537, m - 1, m, m + 1, 3*m + 7}
}

package e2

import (
	"fmt"
	"strings"

	g "github.com/bobertlo/gmars"

	"verif/mc/hx"
	"verif/mc/ref"
)

// Classics are eight complete warriors of 1..10 instructions (imp, dwarf, a
// replicator, a scanner, a silk-style paper, an arithmetic loop, a counting
// loop with a split, a clear). They are the "long history" part of the battle
// spaces: values that build up over thousands of cycles, queues that fill to
// the process limit and drain, pointers that travel around the whole core.
// The start index of each is Starts[i].
func Classics(M uint64) ([][]g.Instruction, []int) {
	D, I, AI, BI := g.DIRECT, g.IMMEDIATE, g.A_INDIRECT, g.B_INDIRECT
	AD, AP, BD, BP := g.A_DECREMENT, g.A_INCREMENT, g.B_DECREMENT, g.B_INCREMENT
	x := func(op g.OpCode, md g.OpMode, am g.AddressMode, a int, bm g.AddressMode, b int) g.Instruction {
		return ins(op, md, am, a, bm, b, M)
	}
	progs := [][]g.Instruction{
		{x(g.MOV, g.I, D, 0, D, 1)},
		{x(g.ADD, g.AB, I, 4, D, 3), x(g.MOV, g.I, D, 2, BI, 2), x(g.JMP, g.B, D, -2, D, 0), x(g.DAT, g.F, I, 0, I, 0)},
		{x(g.DAT, g.F, I, 0, I, 0), x(g.MOV, g.AB, I, 8, D, -1), x(g.MOV, g.I, BI, -2, BD, 5), x(g.DJN, g.B, D, -1, D, -3),
			x(g.SPL, g.B, BI, 3, D, 0), x(g.ADD, g.AB, I, 23, D, 2), x(g.JMZ, g.B, D, -5, D, -6), x(g.DAT, g.F, I, 0, I, 33)},
		{x(g.ADD, g.AB, I, 7, D, 3), x(g.JMZ, g.F, D, -1, BI, 2), x(g.MOV, g.I, D, 2, BI, 1), x(g.JMP, g.B, D, -3, D, 0), x(g.DAT, g.F, I, 0, I, 0)},
		{x(g.SPL, g.B, BI, 0, AP, 33), x(g.MOV, g.I, AP, -1, BP, -1), x(g.MOV, g.I, AD, -2, BD, 7), x(g.DJN, g.F, D, -1, BD, -13), x(g.DAT, g.F, BD, 1, BD, 1)},
		{x(g.ADD, g.F, D, 7, D, 8), x(g.SUB, g.X, AI, 7, BI, 6), x(g.MUL, g.BA, I, 3, D, 6), x(g.DIV, g.AB, I, 2, D, 5), x(g.MOD, g.F, D, 4, D, 5),
			x(g.SLT, g.A, I, 5, D, 3), x(g.JMP, g.B, D, -6, D, 0), x(g.DAT, g.F, I, 3, I, 5), x(g.DAT, g.F, I, 2, I, 7), x(g.DAT, g.F, I, 11, I, 13)},
		{x(g.SNE, g.I, D, 13, D, 26), x(g.ADD, g.F, D, 4, D, -1), x(g.DJN, g.B, D, -2, I, 40), x(g.SPL, g.B, D, 0, BD, -7), x(g.MOV, g.I, D, 1, BD, -8), x(g.DAT, g.F, I, 13, I, 13)},
		{x(g.SPL, g.B, D, 0, BD, -9), x(g.MOV, g.I, D, 2, BD, -10), x(g.JMP, g.B, D, -1, BD, -11), x(g.DAT, g.F, BD, -12, BD, -12)},
	}
	return progs, []int{0, 0, 1, 0, 0, 0, 0, 0}
}

// classics: every classic alone, every ordered pair at two spacings, every
// triple of the first five, for each core size, process limit and limit pair.
func (r *runner) classics(Ms []uint64, ps []uint64, C uint64, triples bool) {
	unit := 0
	for _, M := range Ms {
		progs, st := Classics(M)
		lims := [][2]uint64{{M, M}, {M / 4, M/8 + 3}}
		for _, P := range ps {
			for _, l := range lims {
				for i, p := range progs {
					unit++
					if !r.sh.Mine(unit) || r.expired() {
						continue
					}
					r.run(&Battle{M: M, R: l[0], W: l[1], P: P, C: C, ResetAt: -1, Ws: []WSpec{{p, st[i], M - 3}}})
					for j, q := range progs {
						for _, off := range []uint64{M / 2, M/3 + 1} {
							r.run(&Battle{M: M, R: l[0], W: l[1], P: P, C: C, ResetAt: -1, Ws: []WSpec{{p, st[i], 0}, {q, st[j], off}}})
						}
						if triples && i < 5 && j < 5 {
							for k := 0; k < 5; k++ {
								r.run(&Battle{M: M, R: l[0], W: l[1], P: P, C: C, ResetAt: -1,
									Ws: []WSpec{{p, st[i], 0}, {q, st[j], M / 3}, {progs[k], st[k], 2 * M / 3}}})
							}
						}
					}
				}
			}
		}
	}
	r.sample()
}

// diffCore lists up to six cells in which gmars' core and the reference differ.
func diffCore(a []g.Instruction, b []ref.Ins) string {
	var parts []string
	for i := range a {
		if i < len(b) && a[i] != b[i] {
			parts = append(parts, fmt.Sprintf("cell %d: %s, reference %s", i, hx.InsStr(a[i]), hx.InsStr(b[i])))
			if len(parts) == 6 {
				parts = append(parts, "...")
				break
			}
		}
	}
	return strings.Join(parts, "; ")
}

// stepwiseBig is the lock-step C02 (and C04) oracle for cores above 64 cells:
// after every cycle the executed tasks, the counters, the queues and every
// cell the reference step touched are compared; the whole core every 509th
// cycle and at the end; then Run() on a fresh simulator against the final
// state.
func (c *Checker) stepwiseBig(b *Battle) {
	rep := c.Rep
	var panicked, stage string
	func() {
		defer func() {
			if r := recover(); r != nil {
				panicked = fmt.Sprint(r)
			}
		}()
		stage = "create"
		sim, err := g.NewReportingSimulator(b.config())
		if err != nil {
			panicked = "config rejected: " + err.Error()
			return
		}
		lis := &listener{sim: sim, M: b.M, noSnap: true}
		sim.AddReporter(lis)
		var hs []g.Warrior
		for _, w := range b.Ws {
			h, err := sim.AddWarrior(&g.WarriorData{Code: w.Code, Start: w.Start})
			if err != nil {
				panicked = "AddWarrior: " + err.Error()
				return
			}
			hs = append(hs, h)
		}
		stage = "spawn"
		for i, w := range b.Ws {
			if err := sim.SpawnWarrior(i, g.Address(w.Off)); err != nil {
				panicked = "SpawnWarrior: " + err.Error()
				return
			}
		}
		m := newRef(b)
		stage = "cycle"
		whole := func() []g.Instruction {
			f := make([]g.Instruction, b.M)
			for a := uint64(0); a < b.M; a++ {
				f[a] = sim.GetMem(g.Address(a))
			}
			return f
		}
		for cyc := 0; m.Active(); cyc++ {
			before := m.Living
			completed := m.Cycle()
			lis.tasks = lis.tasks[:0]
			lis.reps = lis.reps[:0]
			ret := sim.RunCycle()
			rep.Transitions++
			rep.Traces++
			if !completed {
				rep.Count("c02:decided-mid-cycle")
			}
			if before-m.Living >= 2 {
				rep.Count("c02:two-deaths-in-one-cycle")
			}
			ok := len(lis.tasks) == len(m.Tasks)
			if ok {
				for i := range m.Tasks {
					if lis.tasks[i].W != m.Tasks[i].W || lis.tasks[i].PC != m.Tasks[i].PC {
						ok = false
					}
				}
			}
			for _, t := range m.Tasks {
				if t.Died {
					rep.Count(fmt.Sprintf("c02:death-at-position-%d", t.W))
				}
				if len(t.Pushed) < len(t.Out.Push) {
					rep.Count("c02:split-dropped-at-limit")
				}
			}
			if !ok {
				c.fail("C02", "executed-tasks", b, func() string {
					return fmt.Sprintf("cycle %d: gmars executed %s, reference %s", cyc, taskList(lis.tasks), refTaskList(m.Tasks))
				})
				return
			}
			if ret != m.Living || sim.WarriorLivingCount() != m.Living || uint64(sim.CycleCount()) != m.Cycles {
				c.fail("C02", "living-count", b, func() string {
					return fmt.Sprintf("cycle %d: RunCycle returned %d, WarriorLivingCount %d, CycleCount %d; reference living %d, cycles %d", cyc, ret, sim.WarriorLivingCount(), sim.CycleCount(), m.Living, m.Cycles)
				})
				return
			}
			last := !m.Active()
			for i, h := range hs {
				if len(m.Ws[i].Q) > 64 && cyc%97 != 0 && !last {
					if h.Alive() != m.Ws[i].Alive {
						c.fail("C02", "queue", b, func() string {
							return fmt.Sprintf("cycle %d warrior %d: alive=%v, reference %v", cyc, i, h.Alive(), m.Ws[i].Alive)
						})
						return
					}
					continue
				}
				if q := h.Queue(); h.Alive() != m.Ws[i].Alive || !eqQ(q, m.Ws[i].Q) {
					c.fail("C02", "queue", b, func() string {
						return fmt.Sprintf("cycle %d warrior %d: alive=%v queue(len %d)=%.200s, reference alive=%v queue(len %d)=%.200s", cyc, i, h.Alive(), len(q), fmt.Sprint(q), m.Ws[i].Alive, len(m.Ws[i].Q), fmt.Sprint(m.Ws[i].Q))
					})
					return
				}
			}
			if cyc%509 == 0 || last {
				if f := whole(); !eqCore(f, m.Core) {
					c.fail("C02", "core", b, func() string { return fmt.Sprintf("cycle %d: %s", cyc, diffCore(f, m.Core)) })
					return
				}
				if c.Props.C04 {
					c.invariants(b, sim, hs, whole(), cyc)
				}
			} else {
				for _, t := range m.Tasks {
					for _, ev := range t.Out.Events {
						for d := uint64(0); d < 2; d++ { // the cell and its successor
							a := (ev.Addr + d) % b.M
							if x := sim.GetMem(g.Address(a)); x != m.Core[a] {
								c.fail("C02", "core", b, func() string {
									return fmt.Sprintf("cycle %d: cell %d is %s, reference %s", cyc, a, hx.InsStr(x), hx.InsStr(m.Core[a]))
								})
								return
							}
						}
					}
				}
			}
			if cyc > int(b.C)+2 {
				break
			}
		}
		if m.Cycles >= m.MaxCycles {
			rep.Count("c02:stopped-by-cycle-limit")
		} else if len(b.Ws) == 1 {
			rep.Count("c02:lone-warrior-death")
		} else {
			rep.Count("c02:single-survivor")
		}
		if c.Props.C02 {
			c.compareRun(b, m, 0)
			if b.C <= 5000 {
				c.compareRun(b, m, 7)
			}
		}
	}()
	if panicked != "" {
		for _, p := range c.plist() {
			c.fail(p, "panic", b, func() string { return stage + ": " + panicked })
		}
	}
}

package e7

import (
	"encoding/json"
	"fmt"
)

// Run dispatches on the job name.
func (c *Ctx) Run(job, tier string) {
	switch job {
	case "iso":
		c.RunIso()
		c.RunCfgSeq()
		c.RunReadd()
		c.RunUntouched()
	case "race":
		c.RunRace(tier)
	default:
		c.RunInst(tier)
	}
}

// Replay re-executes a witness. capS carries the repetition count for the
// race child.
func (c *Ctx) Replay(job, wit string, capS int) error {
	var sc Scenario
	if err := json.Unmarshal([]byte(wit), &sc); err != nil {
		return err
	}
	switch {
	case job == "race-child":
		RaceChild(&sc, capS)
	case sc.Mode == "iso":
		isoBare = sc.Iso.Bare
		isoWide = sc.Iso.Wide
		base, before, after, pan := isoRun(-1, 0)
		if pan != "" {
			c.fail("panic", sc.witness(), pan)
			return nil
		}
		if sc.Iso.Mut < 0 {
			if before != after {
				c.fail("battle-changed-caller-data", sc.witness(), fmt.Sprintf("caller's data before: %s; after the battle: %s", before, after))
			}
			return nil
		}
		c.checkIso(base, sc.Iso.Mut, sc.Iso.Point)
	case sc.Mode == "untouched":
		c.checkUntouched(sc.Untouched)
	case sc.Mode == "readd":
		c.checkReadd(sc.Readd)
	case sc.Mode == "cfgseq":
		c.cfgSeq(sc.Jobs[0])
	case sc.Mode == "race":
		// a race is a property of sampled schedules: replaying re-runs the pass for this job set
		c.raceOne(sc.Jobs, 20)
	default:
		c.ReplayInst(&sc)
	}
	return nil
}

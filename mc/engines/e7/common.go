// Package e7 is the isolation / repeatability / concurrency engine (C14):
// interleavings of assembly and simulation jobs under the controlled
// scheduler, map-iteration orders, copy isolation between caller data and
// simulator, and a free-running race-detector pass.
package e7

import (
	"encoding/json"
	"fmt"
	"strings"
	"time"

	g "github.com/bobertlo/gmars"

	"verif/mc/hx"
	"verif/mc/ref"
	"verif/mc/sched"
)

type Ctx struct {
	Rep      *hx.Report
	Sh       hx.Shard
	Deadline time.Time
	WD       *hx.Watchdog
	stop     bool
}

func (c *Ctx) expired() bool {
	if c.stop {
		return true
	}
	if !c.Deadline.IsZero() && time.Now().After(c.Deadline) {
		c.stop = true
		c.Rep.Exhaustive = false
		c.Rep.Note("tier time cap reached; the enumeration was cut short")
	}
	return c.stop
}

func (c *Ctx) fail(kind, witness, detail string) {
	if c.Rep.Hit("C14", kind) {
		c.Rep.Add("C14", kind, witness, detail)
	}
}

var cfgSmall = g.SimulatorConfig{Mode: g.ICWS94, CoreSize: 5, Processes: 2, Cycles: 4, ReadLimit: 5, WriteLimit: 5, Length: 2, Distance: 2}

// SharedWarrior is the warrior data shared by simulation jobs.
func SharedWarrior() *g.WarriorData {
	D := g.DIRECT
	return &g.WarriorData{Name: "shared", Code: []g.Instruction{
		{Op: g.SPL, OpMode: g.B, AMode: D, A: 1, BMode: D, B: 0},
		{Op: g.MOV, OpMode: g.I, AMode: D, A: 4, BMode: g.B_INCREMENT, B: 4}}, Start: 0}
}

// Job kinds.
const (
	JAsm1 = iota
	JAsm2
	JSim
	JLoad
	JAsm3
	JAsm4
	JAsm1b  // the text of JAsm1 under another configuration (the result differs)
	JAsm88  // an ICWS'88 assembly (the '88 validation path)
	JAsmErr // an assembly that fails (undefined symbol: the error path)
	JAsmLbl // a FOR block with a block label used inside and after it
	JSim2   // two rounds in one simulator with Reset called twice in between
	JAsmOrg // the entry point given by ORG and again (same value) by END
	JSim5   // five rounds in one simulator at alternating placements, results of every round
)

var jobNames = []string{"assemble(mov 0, -1)", "assemble(EQU + FOR)", "simulate(shared warrior)", "load(MOV.I $ 0, $ 1)", "assemble(labels + EQU chain + ;assert)", "assemble(FOR 0: a pass that emits nothing)", "assemble(mov 0, -1 under CORESIZE 8000)", "assemble(ICWS'88 dwarf)", "assemble(undefined symbol: an error)", "assemble(labelled FOR block)", "simulate(two rounds, Reset twice)", "assemble(ORG and END agree)", "simulate(five rounds in one simulator)"}

const srcAsm1 = "mov 0, -1\n"
const srcAsm2 = "n equ 2\ni for n\ndat i, n\nrof\n"
const srcAsm3 = "a equ b+1\nb equ 2\n;assert a == 3\ns mov a, e\ne jmp s, b\n"
const srcLoad = "MOV.I $ 0, $ 1\n"
const srcAsm4 = "i for 0\ndat i\nrof\n"

// RunJob executes one job and renders its result (error texts are not part of the result).
func RunJob(kind int, cfg g.SimulatorConfig, shared *g.WarriorData) (res string) {
	defer func() {
		if p := recover(); p != nil {
			if fmt.Sprintf("%T", p) == "sched.killSentinel" {
				panic(p)
			}
			res = "panic: " + fmt.Sprint(p)
		}
	}()
	render := func(w g.WarriorData, err error) string {
		if err != nil {
			return "error"
		}
		return fmt.Sprintf("ok %s start=%d name=%q", hx.CoreStr(w.Code), w.Start, w.Name)
	}
	switch kind {
	case JAsm1:
		return render(g.CompileWarrior(strings.NewReader(srcAsm1), cfg))
	case JAsm1b:
		return render(g.CompileWarrior(strings.NewReader(srcAsm1), g.ConfigNOP94))
	case JAsmOrg:
		return render(g.CompileWarrior(strings.NewReader("org 1\nmov 0, 1\nmov 0, 1\nend 1\n"), cfg))
	case JSim2:
		sim, err := g.NewSimulator(cfgSmall)
		if err != nil {
			return "error"
		}
		w1, _ := sim.AddWarrior(shared)
		w2, _ := sim.AddWarrior(&g.WarriorData{Code: []g.Instruction{{Op: g.JMP, OpMode: g.B}}, Start: 0})
		sim.SpawnWarrior(0, 1)
		sim.SpawnWarrior(1, 4)
		sim.RunCycle()
		sim.Reset()
		sim.Reset()
		sim.SpawnWarrior(0, 0)
		sim.SpawnWarrior(1, 3)
		r := sim.Run()
		core := make([]g.Instruction, 5)
		for a := range core {
			core[a] = sim.GetMem(g.Address(a))
		}
		return fmt.Sprintf("res=%v cycles=%d core=%s queues=%v %v", r, sim.CycleCount(), hx.CoreStr(core), w1.Queue(), w2.Queue())
	case JSim5:
		sim, err := g.NewSimulator(cfgSmall)
		if err != nil {
			return "error"
		}
		w1, _ := sim.AddWarrior(shared)
		w2, _ := sim.AddWarrior(&g.WarriorData{Code: []g.Instruction{{Op: g.JMP, OpMode: g.B}}, Start: 0})
		var sb strings.Builder
		for round := 0; round < 5; round++ {
			if round > 0 {
				sim.Reset()
			}
			sim.SpawnWarrior(0, g.Address(round%2))
			sim.SpawnWarrior(1, g.Address(3+round%2))
			r := sim.Run()
			core := make([]g.Instruction, 5)
			for a := range core {
				core[a] = sim.GetMem(g.Address(a))
			}
			fmt.Fprintf(&sb, "round %d: res=%v cycles=%d core=%s queues=%v %v; ", round, r, sim.CycleCount(), hx.CoreStr(core), w1.Queue(), w2.Queue())
		}
		return sb.String()
	case JAsm88:
		return render(g.CompileWarrior(strings.NewReader("loop add #4, bomb\nmov bomb, @bomb\njmp loop\nbomb dat #0, #0\nend loop\n"), g.ConfigKOTH88))
	case JAsmErr:
		return render(g.CompileWarrior(strings.NewReader("a equ b+1\nmov a, nowhere\ndat else1, else2\n"), cfg))
	case JAsmLbl:
		return render(g.CompileWarrior(strings.NewReader("top jmp blk\nblk i for 2\nadd #i, blk\nrof\nspl top, blk\n"), cfg))
	case JAsm2:
		return render(g.CompileWarrior(strings.NewReader(srcAsm2), cfg))
	case JAsm3:
		return render(g.CompileWarrior(strings.NewReader(srcAsm3), cfg))
	case JAsm4:
		return render(g.CompileWarrior(strings.NewReader(srcAsm4), cfg))
	case JLoad:
		return render(g.ParseLoadFile(strings.NewReader(srcLoad), cfg))
	case JSim:
		sim, err := g.NewSimulator(cfgSmall)
		if err != nil {
			return "error"
		}
		w, err := sim.AddWarrior(shared)
		if err != nil {
			return "error"
		}
		if err := sim.SpawnWarrior(0, 1); err != nil {
			return "error"
		}
		r := sim.Run()
		core := make([]g.Instruction, 5)
		for a := range core {
			core[a] = sim.GetMem(g.Address(a))
		}
		return fmt.Sprintf("res=%v cycles=%d core=%s queue=%v", r, sim.CycleCount(), hx.CoreStr(core), w.Queue())
	}
	return "bad job"
}

// Scenario is a set of jobs run concurrently.
type Scenario struct {
	Jobs    []int         `json:"jobs"`
	Mode    string        `json:"mode"` // fine | perm | race | iso
	Prefix  sched.Choices `json:"choices,omitempty"`
	Src     string        `json:"src,omitempty"`
	Note    string        `json:"note,omitempty"`
	Iso     *IsoCase      `json:"iso,omitempty"`
	Readd   *ReaddCase    `json:"readd,omitempty"`
	Untouched *UntouchedCase `json:"untouched,omitempty"`
	Threads int           `json:"threads,omitempty"`
}

func (s *Scenario) witness() string {
	b, _ := json.Marshal(s)
	return string(b)
}

func (s *Scenario) describe() string {
	var n []string
	for _, j := range s.Jobs {
		n = append(n, jobNames[j])
	}
	return strings.Join(n, " || ")
}

// Scenarios of the interleaving exploration.
func Scenarios(thorough bool) [][]int {
	// single jobs too: one assembly already runs a consumer and one or two
	// producer goroutines whose interleaving must not change its result
	out := [][]int{{JAsm4}, {JAsm2}, {JAsm1}, {JAsm4, JAsm1}, {JAsm1, JAsm1b}, {JAsm1b, JAsm1}, {JAsm88, JAsm1}, {JAsmErr, JAsm1}, {JAsmErr, JAsmErr}, {JAsmLbl, JAsm2}, {JAsmLbl, JAsmLbl}, {JSim2, JSim2}, {JSim2, JSim}, {JSim5, JSim5}, {JSim5, JAsm2}, {JAsmOrg, JAsmOrg}, {JAsm1, JAsm1}, {JAsm1, JSim}, {JSim, JSim}, {JLoad, JAsm1}, {JLoad, JSim}, {JAsm1, JAsm2}, {JAsm2, JSim}, {JAsm2, JAsm2}, {JAsm3, JAsm1}, {JAsm3, JAsm3}}
	if thorough {
		out = append(out, []int{JAsm1, JAsm2, JSim}, []int{JSim, JSim, JAsm1}, []int{JAsm3, JSim, JLoad}, []int{JAsm1, JAsm1, JAsm1})
	} else {
		out = append(out, []int{JAsm1, JSim, JLoad})
	}
	return out
}

// Expected gives the by-construction result of the jobs whose meaning does not
// need the reference assembler (a result cached under the wrong key would
// also be returned when the job runs alone, so "equal to the sequential
// result" is not enough for them).
func Expected(kind int) (string, bool) {
	switch kind {
	case JAsm1:
		return `ok [MOV.I $0 $79] start=0 name=""`, true // ConfigNopNano: CORESIZE 80
	case JAsm1b:
		return `ok [MOV.I $0 $7999] start=0 name=""`, true
	case JAsm4:
		return `ok [] start=0 name=""`, true
	case JAsm2:
		return `ok [DAT.F $1 $2 | DAT.F $2 $2] start=0 name=""`, true
	case JAsm88:
		return `ok [ADD.AB #4 $3 | MOV.I $2 @2 | JMP.B $7998 $0 | DAT.F #0 #0] start=0 name=""`, true
	case JAsmErr:
		return "error", true
	case JAsmOrg:
		return `ok [MOV.I $0 $1 | MOV.I $0 $1] start=1 name=""`, true
	case JSim5:
		// by construction: the reference scheduler, a fresh machine per round
		var sb strings.Builder
		sh := SharedWarrior()
		for round := 0; round < 5; round++ {
			m := ref.NewMars(5, 5, 5, 2, 4)
			m.Add()
			m.Add()
			m.Spawn(0, sh.Code, sh.Start, uint64(round%2))
			m.Spawn(1, []g.Instruction{{Op: g.JMP, OpMode: g.B}}, 0, uint64(3+round%2))
			for m.Active() {
				m.Cycle()
			}
			q := func(x []uint64) []g.Address {
				out := make([]g.Address, len(x))
				for i, v := range x {
					out[i] = g.Address(v)
				}
				return out
			}
			fmt.Fprintf(&sb, "round %d: res=%v cycles=%d core=%s queues=%v %v; ", round, []bool{m.Ws[0].Alive, m.Ws[1].Alive}, m.Cycles, hx.CoreStr(m.Core), q(m.Ws[0].Q), q(m.Ws[1].Q))
		}
		return sb.String(), true
	case JAsmLbl:
		return `ok [JMP.B $1 $0 | ADD.AB #1 $0 | ADD.AB #2 $79 | SPL.B $77 $78] start=0 name=""`, true
	}
	return "", false
}

//go:build verifinst

package e7

import (
	"fmt"
	"os"
	"strings"

	g "github.com/bobertlo/gmars"

	"verif/mc/hx"
	"verif/mc/sched"
)

func attach(s *sched.Sched) {
	g.VerifHooks = &g.VerifHookSet{Tick: s.Tick, Go: s.Go, Send: s.Send, Recv: s.Recv, Close: s.Close, Perm: s.Perm}
}

// runScenario executes the jobs of a scenario as threads under the scheduler.
func (c *Ctx) runScenario(sc *Scenario, prefix []int, fine bool) (*sched.Outcome, []string) {
	s := &sched.Sched{Fine: fine, Budget: 3000000, Prefix: prefix}
	attach(s)
	defer func() { g.VerifHooks = nil }()
	cfg := g.ConfigNopNano // shared configuration value
	shared := SharedWarrior()
	res := make([]string, len(sc.Jobs))
	c.WD.Begin("C14", "harness-watchdog", sc.witness)
	o := s.Run(func() {
		for i := 1; i < len(sc.Jobs); i++ {
			i := i
			s.Go(func() { res[i] = RunJob(sc.Jobs[i], cfg, shared) })
		}
		res[0] = RunJob(sc.Jobs[0], cfg, shared)
	})
	c.WD.End()
	c.Rep.Transitions++
	return o, res
}

func (c *Ctx) judge(sc *Scenario, o *sched.Outcome, res, solo []string) {
	c.Rep.Traces++
	w := func() string {
		k := *sc
		k.Prefix = o.Choices()
		return k.witness()
	}
	switch {
	case o.Diverged != "":
		fmt.Fprintln(os.Stderr, "replay diverged:", o.Diverged, sc.witness())
		os.Exit(3)
	case o.BudgetExceeded:
		c.fail("does-not-terminate", w(), "step budget exhausted")
	case o.ThreadPanic != "":
		c.fail("panic", w(), o.ThreadPanic)
	case o.Deadlock:
		c.fail("deadlock", w(), "a job is blocked forever")
	case len(o.Leaked) > 0:
		c.fail("goroutine-left-behind", w(), strings.Join(o.Leaked, "; "))
	default:
		for i := range res {
			if res[i] != solo[i] {
				c.fail("result-depends-on-interleaving", w(), fmt.Sprintf("job %d (%s) returned %s; alone it returns %s", i, jobNames[sc.Jobs[i]], res[i], solo[i]))
			}
		}
	}
}

func soloResults(jobs []int) []string {
	out := make([]string, len(jobs))
	for i, j := range jobs {
		if e, ok := Expected(j); ok {
			out[i] = e
			continue
		}
		out[i] = RunJob(j, g.ConfigNopNano, SharedWarrior())
	}
	return out
}

// exploreScenario: every interleaving at fine granularity up to the largest
// preemption bound that fits the execution budget.
func (c *Ctx) exploreScenario(jobs []int, maxBound int, budget int64) {
	rep := c.Rep
	rep.States++
	sc := &Scenario{Jobs: jobs, Mode: "fine"}
	solo := soloResults(jobs)
	probe, _ := c.runScenario(sc, nil, true)
	alts := 0
	for _, p := range probe.Points {
		alts += p.N - 1
	}
	bound := 0
	est := 1.0
	for b := 1; b <= maxBound; b++ {
		est = est * float64(alts-b+1) / float64(b)
		if 3*est > float64(budget) {
			break
		}
		bound = b
	}
	rep.Count(fmt.Sprintf("c14:scenarios-explored-to-preemption-bound-%d", bound))
	ex := &sched.Explorer{Bound: bound, Fine: true, MaxExecs: 10 * budget, Deadline: c.Deadline}
	var last []string
	distinct := map[string]bool{}
	ex.Exec = func(s *sched.Sched) *sched.Outcome {
		o, res := c.runScenario(sc, s.Prefix, true)
		last = res
		return o
	}
	ex.Check = func(o *sched.Outcome) {
		c.judge(sc, o, last, solo)
		distinct[strings.Join(last, "|")] = true
	}
	ex.Explore()
	if ex.Capped {
		rep.Exhaustive = false
		rep.Note("exploration of one scenario was capped")
	}
	rep.Counters["c14:interleavings-explored"] += ex.Execs
	rep.Counters["c14:distinct-outcomes-summed-over-scenarios"] += int64(len(distinct))
	rep.Counters["c14:scenarios"]++
	if int64(ex.MaxLen) > rep.Counters["c14:max-scheduling-points-in-one-execution"] {
		rep.Counters["c14:max-scheduling-points-in-one-execution"] = int64(ex.MaxLen)
	}
	rep.Sample(sc.describe())
}

// programs exercising the four map-iteration sites
var mapPrograms = []string{
	"a equ 1\nb equ a+1\nc equ b+a\ndat a, c\n",
	"a equ b+c\nb equ d\nc equ d\nd equ 4\nmov a, b\n",
	"x equ l2-l1\nl1 dat x\nl2 dat x+1\n",
	"dat u1, u2\n",
	"a equ b\nb equ c\nc equ a\ndat a\n",
	"n equ m\nm equ 2\ni for n\ndat i, m\nrof\n",
	"p equ 1\nq equ 2\nr equ 3\ns equ 4\nt equ 5\nadd #p+q+r, s*t\n",
	"a equ 1\na2 equ a\na3 equ a2\na4 equ a3\na5 equ a4\na6 equ a5\ndat a6\n",
	"l1 mov l2, l3\nl2 mov l3, l1\nl3 mov l1, l2\nl4 jmp l1, u9\n",
	"x equ y+z\ny equ 2\nz equ w\ndat x\n",
	"k equ 2\n;assert k == 2\n;assert CORESIZE > k\nj for k\ndat j\nrof\n",
	"a equ a\ndat 1\n",
	"e1 equ 1\ne2 equ e1+e1\ne3 equ e2+e2\ne4 equ e3+e3\ndat e4, e3\nmov e2, e1\n",
	"org s\ns equ t\nt equ 1\ndat 0\ndat 0\n",
	"x equ 2\ny equ 3\nn equ y*x\ni for n\ndat i\nrof\n",
	"a equ 1\nb equ a+1\nc equ a+b\nd equ c-b\ni for d+b\ndat i, c\nrof\n",
	"p equ q+r\nq equ 1\nr equ q\ni for p\nj for r\ndat i, j\nrof\nrof\n",
}

// exploreMapOrders: every map-iteration order vector with at most bound
// deviating sites must give one result.
func (c *Ctx) exploreMapOrders(pi int, bound int) {
	rep := c.Rep
	rep.States++
	src := mapPrograms[pi]
	sc := &Scenario{Mode: "perm", Src: src}
	distinct := map[string]string{}
	ex := &sched.Explorer{Bound: bound, OnlyPerm: true, MaxExecs: 3000000, Deadline: c.Deadline}
	var last string
	first := ""
	ex.Exec = func(s *sched.Sched) *sched.Outcome {
		s.Budget = 3000000
		attach(s)
		defer func() { g.VerifHooks = nil }()
		c.WD.Begin("C14", "harness-watchdog", sc.witness)
		o := s.Run(func() {
			defer func() {
				if p := recover(); p != nil {
					if fmt.Sprintf("%T", p) == "sched.killSentinel" {
						panic(p)
					}
					last = "panic: " + fmt.Sprint(p)
				}
			}()
			w, err := g.CompileWarrior(strings.NewReader(src), g.ConfigNOP94)
			if err != nil {
				last = "error"
			} else {
				last = fmt.Sprintf("ok %s start=%d", hx.CoreStr(w.Code), w.Start)
			}
		})
		c.WD.End()
		rep.Transitions++
		return o
	}
	ex.Check = func(o *sched.Outcome) {
		rep.Traces++
		k := *sc
		k.Prefix = o.Choices()
		if o.BudgetExceeded || o.Deadlock || len(o.Leaked) > 0 || o.ThreadPanic != "" {
			c.fail("order-dependent-termination", k.witness(), fmt.Sprintf("budget=%v deadlock=%v leaked=%v panic=%s", o.BudgetExceeded, o.Deadlock, o.Leaked, o.ThreadPanic))
			return
		}
		if first == "" {
			first = last
		}
		if _, ok := distinct[last]; !ok {
			distinct[last] = k.witness()
		}
		if last != first {
			c.fail("result-depends-on-map-order", k.witness(), fmt.Sprintf("with this iteration order the result is %s; with sorted orders it is %s", last, first))
		}
	}
	ex.Explore()
	if ex.Capped {
		rep.Exhaustive = false
		rep.Note("map-order exploration of one program was capped")
	}
	rep.Counters["c14:map-order-vectors-explored"] += ex.Execs
	rep.Counters["c14:map-order-programs"]++
	rep.Counters["c14:distinct-results-summed-over-map-order-programs"] += int64(len(distinct))
}

// RunInst: interleavings and map orders.
func (c *Ctx) RunInst(tier string) {
	thorough := tier == "thorough"
	maxBound, budget := 2, int64(60000)
	if thorough {
		maxBound, budget = 3, 1500000
	}
	scs := Scenarios(thorough)
	unit := 0
	for _, jobs := range scs {
		if c.Sh.Mine(unit) && !c.expired() {
			c.exploreScenario(jobs, maxBound, budget)
		}
		unit++
	}
	c.Rep.Bound = fmt.Sprintf("%d scenarios of 1..3 concurrent jobs over 13 job kinds (assemblies of nine sources incl. a failing one, an ICWS'88 one, FOR blocks that emit nothing / carry labels, ORG+END; a load; simulations with a shared WarriorData and a shared configuration value, also of two and five rounds with Reset) on the instrumented build, a scheduling point at every function entry, loop iteration and channel operation: every interleaving up to the largest preemption bound (<=%d) whose execution count fits %d, reported per scenario in the counters", len(scs), maxBound, budget)
	pb := 2
	for pi := range mapPrograms {
		if c.Sh.Mine(unit) && !c.expired() {
			c.exploreMapOrders(pi, pb)
		}
		unit++
	}
	c.Rep.Bound += fmt.Sprintf("; %d programs exercising the 4 map-iteration sites: every order vector with <=%d deviating sites (all permutations for <=4 keys, otherwise rotations of the sorted and reversed order and adjacent transpositions)", len(mapPrograms), pb)
}

func (c *Ctx) ReplayInst(sc *Scenario) {
	switch sc.Mode {
	case "fine":
		solo := soloResults(sc.Jobs)
		o, res := c.runScenario(sc, sc.Prefix, true)
		c.judge(sc, o, res, solo)
	case "perm":
		// re-run the default order and the recorded one
		for pi, p := range mapPrograms {
			if p == sc.Src {
				save := c.Rep.Counters
				_ = save
				c.replayPerm(pi, sc.Prefix)
			}
		}
	}
}

func (c *Ctx) replayPerm(pi int, prefix []int) {
	src := mapPrograms[pi]
	run := func(pre []int) string {
		s := &sched.Sched{Budget: 3000000, Prefix: pre}
		attach(s)
		defer func() { g.VerifHooks = nil }()
		var out string
		o := s.Run(func() {
			w, err := g.CompileWarrior(strings.NewReader(src), g.ConfigNOP94)
			if err != nil {
				out = "error"
			} else {
				out = fmt.Sprintf("ok %s start=%d", hx.CoreStr(w.Code), w.Start)
			}
		})
		if o.Diverged != "" {
			fmt.Fprintln(os.Stderr, "replay diverged:", o.Diverged)
			os.Exit(3)
		}
		if o.BudgetExceeded || o.Deadlock || len(o.Leaked) > 0 || o.ThreadPanic != "" {
			return fmt.Sprintf("abnormal: budget=%v deadlock=%v leaked=%v panic=%s", o.BudgetExceeded, o.Deadlock, o.Leaked, o.ThreadPanic)
		}
		return out
	}
	a, b := run(nil), run(prefix)
	sc := &Scenario{Mode: "perm", Src: src, Prefix: prefix}
	if strings.HasPrefix(b, "abnormal") {
		c.fail("order-dependent-termination", sc.witness(), b)
	} else if a != b {
		c.fail("result-depends-on-map-order", sc.witness(), fmt.Sprintf("with this iteration order the result is %s; with sorted orders it is %s", b, a))
	}
}

//go:build !verifinst

package e7

func (c *Ctx) RunInst(tier string) {
	c.Rep.Exhaustive = false
	c.Rep.Note("this binary was built without the instrumentation overlay; interleavings and map orders were not explored")
}

func (c *Ctx) ReplayInst(sc *Scenario) {}

package e7

import (
	"fmt"

	g "github.com/bobertlo/gmars"

	"verif/mc/hx"
)

// IsoCase: one mutation of the caller's warrior data applied at one API point.
type IsoCase struct {
	Mut   int  `json:"mutation"`
	Point int  `json:"point"`
	Bare  bool `json:"no_metadata,omitempty"`
	Wide  bool `json:"fields_beyond_core,omitempty"`
}

// isoBare selects the variant without metadata (hand-built data usually has none).
var isoBare bool

// isoWide selects hand-built data whose fields lie beyond the core size
// (AddWarrior accepts it; the addressing reduces the values when it uses them).
var isoWide bool

func isoWarrior() *g.WarriorData {
	w := isoWarriorFull()
	if isoBare {
		w.Name, w.Author, w.Strategy = "", "", ""
	}
	if isoWide {
		for i := range w.Code {
			w.Code[i].A += g.Address(7 * (i + 1))
			w.Code[i].B += g.Address(7 * 100 * (i + 1))
		}
	}
	return w
}

func isoWarriorFull() *g.WarriorData {
	D := g.DIRECT
	return &g.WarriorData{Name: "iso", Author: "au", Strategy: "st", Code: []g.Instruction{
		{Op: g.ADD, OpMode: g.AB, AMode: g.IMMEDIATE, A: 1, BMode: D, B: 2},
		{Op: g.MOV, OpMode: g.I, AMode: D, A: 1, BMode: g.B_INDIRECT, B: 1},
		{Op: g.JMP, OpMode: g.B, AMode: D, A: 5, BMode: D, B: 0}}, Start: 0}
}

// mutations of the caller's data
func nMutations() int { return 3*6 + 6 }

func mutate(d *g.WarriorData, m int) string {
	if m < 18 {
		i, f := m/6, m%6
		x := &d.Code[i]
		switch f {
		case 0:
			x.Op = g.DAT
		case 1:
			x.OpMode = g.X
		case 2:
			x.AMode = g.B_DECREMENT
		case 3:
			x.A = (x.A + 3) % 7
		case 4:
			x.BMode = g.A_INCREMENT
		default:
			x.B = (x.B + 5) % 7
		}
		return fmt.Sprintf("field %d of instruction %d", f, i)
	}
	switch m - 18 {
	case 0:
		d.Start = 2
		return "Start"
	case 1:
		d.Code = append(d.Code, g.Instruction{Op: g.DAT})
		return "append an instruction"
	case 2:
		d.Code = d.Code[:1]
		return "truncate"
	case 3:
		d.Name, d.Author, d.Strategy = "other", "other", "other"
		return "metadata"
	case 4:
		d.Code = nil
		return "Code = nil"
	default:
		for i := range d.Code {
			d.Code[i] = g.Instruction{}
		}
		return "zero every instruction"
	}
}

const isoCycles = 6

// isoRun drives a 6-cycle battle with a Reset + respawn at the end; when mut
// >= 0 the caller's data is mutated at the given API point. It returns the
// trace of observations.
func isoRun(mut, point int) (trace []string, callerBefore, callerAfter string, pan string) {
	defer func() {
		if p := recover(); p != nil {
			pan = fmt.Sprint(p)
		}
	}()
	cfg := g.SimulatorConfig{Mode: g.ICWS94, CoreSize: 7, Processes: 3, Cycles: 20, ReadLimit: 7, WriteLimit: 7, Length: 3, Distance: 3}
	data := isoWarrior()
	snap := func(d *g.WarriorData) string {
		return fmt.Sprintf("%s start=%d %q %q %q", hx.CoreStr(d.Code), d.Start, d.Name, d.Author, d.Strategy)
	}
	callerBefore = snap(data)
	sim, err := g.NewSimulator(cfg)
	if err != nil {
		pan = err.Error()
		return
	}
	step := 0
	at := func() {
		if mut >= 0 && step == point {
			mutate(data, mut)
		}
		step++
	}
	obs := func(w g.Warrior) {
		core := make([]g.Instruction, 7)
		for a := range core {
			core[a] = sim.GetMem(g.Address(a))
		}
		trace = append(trace, fmt.Sprintf("core=%s queue=%v alive=%v len=%d name=%q author=%q cycles=%d listing=%q", hx.CoreStr(core), w.Queue(), w.Alive(), w.Length(), w.Name(), w.Author(), sim.CycleCount(), w.LoadCode()))
	}
	w, err := sim.AddWarrior(data)
	if err != nil {
		pan = err.Error()
		return
	}
	at() // point 0: after AddWarrior
	sim.SpawnWarrior(0, 2)
	obs(w)
	at() // point 1: after spawn
	for i := 0; i < isoCycles; i++ {
		sim.RunCycle()
		obs(w)
		at() // points 2..7: after each cycle
	}
	at() // point 8: before Reset + respawn
	sim.Reset()
	sim.SpawnWarrior(0, 4)
	obs(w)
	sim.RunCycle()
	obs(w)
	callerAfter = snap(data)
	return
}

const isoPoints = 9

// RunIso: every (mutation, API point) pair leaves the simulator's observations
// equal to the unmutated run; the battle leaves the caller's data untouched.
func (c *Ctx) RunIso() {
	for _, bare := range []bool{false, true} {
		isoBare = bare
		c.runIso()
	}
	isoWide = true
	c.runIso()
	isoBare, isoWide = false, false
	c.Rep.Bound = fmt.Sprintf("%d mutations of the caller's WarriorData (with metadata, without, and with fields beyond the core size) x %d API points of a %d-cycle battle with Reset and respawn; the battle must leave the caller's data untouched", nMutations(), isoPoints, isoCycles)
	c.Rep.Sample("mutation 3 (field A of instruction 0) applied after cycle 2")
}

func (c *Ctx) runIso() {
	rep := c.Rep
	base, before, after, pan := isoRun(-1, 0)
	rep.States++
	if pan != "" {
		c.fail("panic", (&Scenario{Mode: "iso", Iso: &IsoCase{-1, 0, isoBare, isoWide}}).witness(), pan)
		return
	}
	if before != after {
		c.fail("battle-changed-caller-data", (&Scenario{Mode: "iso", Iso: &IsoCase{-1, 0, isoBare, isoWide}}).witness(), fmt.Sprintf("caller's data before: %s; after the battle: %s", before, after))
	}
	for m := 0; m < nMutations(); m++ {
		for p := 0; p < isoPoints; p++ {
			c.checkIso(base, m, p)
		}
	}
}

func (c *Ctx) checkIso(base []string, m, p int) {
	rep := c.Rep
	rep.States++
	rep.Transitions++
	rep.Traces++
	sc := &Scenario{Mode: "iso", Iso: &IsoCase{m, p, isoBare, isoWide}}
	tr, _, _, pan := isoRun(m, p)
	if pan != "" {
		c.fail("panic", sc.witness(), pan)
		return
	}
	if len(tr) != len(base) {
		c.fail("caller-mutation-shows-through", sc.witness(), "different number of observations")
		return
	}
	for i := range tr {
		if tr[i] != base[i] {
			d := isoWarrior()
			what := mutate(d, m)
			c.fail("caller-mutation-shows-through", sc.witness(), fmt.Sprintf("changing %s of the caller's data at API point %d changed observation %d: %s (unmutated run: %s)", what, p, i, tr[i], base[i]))
			return
		}
	}
}

package e7

// Configuration neighbourhoods in one process (C14 "a given text under a given
// configuration always yields the same result, no matter what else is
// active"): a process-wide cache or memo keyed by only part of the
// configuration shows when two configurations that differ in exactly one
// field are used one after the other. Every configuration of a neighbourhood
// (a base plus every single-field change) is used in order, in reverse order
// and interleaved with the base; each assembly is compared with the meaning
// the text has by construction and each battle with the reference MARS.

import (
	"fmt"
	"strings"

	g "github.com/bobertlo/gmars"

	"verif/mc/hx"
	"verif/mc/ref"
)

func cfgNeighbours(base g.SimulatorConfig) []g.SimulatorConfig {
	out := []g.SimulatorConfig{base}
	add := func(f func(c *g.SimulatorConfig)) {
		c := base
		f(&c)
		out = append(out, c)
	}
	add(func(c *g.SimulatorConfig) { c.Mode = g.ICWS88 })
	add(func(c *g.SimulatorConfig) { c.Mode = g.NOP94 })
	add(func(c *g.SimulatorConfig) { c.CoreSize += 1 })
	add(func(c *g.SimulatorConfig) { c.CoreSize *= 2 })
	add(func(c *g.SimulatorConfig) { c.Processes += 1 })
	add(func(c *g.SimulatorConfig) { c.Processes = 1 })
	add(func(c *g.SimulatorConfig) { c.Cycles += 1 })
	add(func(c *g.SimulatorConfig) { c.Cycles = 3 })
	add(func(c *g.SimulatorConfig) { c.ReadLimit = c.ReadLimit / 2 })
	add(func(c *g.SimulatorConfig) { c.ReadLimit = 3 })
	add(func(c *g.SimulatorConfig) { c.WriteLimit = c.WriteLimit / 2 })
	add(func(c *g.SimulatorConfig) { c.WriteLimit = 3 })
	add(func(c *g.SimulatorConfig) { c.Length += 1 })
	add(func(c *g.SimulatorConfig) { c.Length = 2 })
	add(func(c *g.SimulatorConfig) { c.Distance += 1 })
	add(func(c *g.SimulatorConfig) { c.Distance = 2 })
	// two fields exchanged (a key that adds or concatenates fields)
	add(func(c *g.SimulatorConfig) { c.Length, c.Distance = c.Distance, c.Length })
	add(func(c *g.SimulatorConfig) { c.Length, c.Processes = c.Processes, c.Length })
	add(func(c *g.SimulatorConfig) { c.ReadLimit, c.WriteLimit = c.WriteLimit/2, c.ReadLimit })
	var ok []g.SimulatorConfig
	for _, c := range out {
		// the documented validity rules of a configuration
		if c.CoreSize >= 3 && c.Processes >= 1 && c.Cycles >= 1 && c.ReadLimit >= 1 && c.WriteLimit >= 1 && c.Length >= 1 && c.Length+c.Distance <= c.CoreSize {
			ok = append(ok, c)
		}
	}
	return ok
}

func cfgStr(c g.SimulatorConfig) string {
	return fmt.Sprintf("{mode %d core %d procs %d cycles %d read %d write %d length %d distance %d}", c.Mode, c.CoreSize, c.Processes, c.Cycles, c.ReadLimit, c.WriteLimit, c.Length, c.Distance)
}

// cfgProbe uses one configuration: two assemblies and one battle.
func (c *Ctx) cfgProbe(cfg g.SimulatorConfig, where string, sc *Scenario) {
	rep := c.Rep
	rep.States++
	rep.Transitions++
	rep.Traces++
	M := uint64(cfg.CoreSize)
	legacy := cfg.Mode == g.ICWS88
	defer func() {
		if p := recover(); p != nil {
			c.fail("panic", sc.witness(), fmt.Sprintf("%s under %s: %v", where, cfgStr(cfg), p))
		}
	}()
	// 1. every predefined constant, bare and in arithmetic
	src := "dat #MINDISTANCE, #MAXLENGTH\ndat #MAXPROCESSES, #CORESIZE-1\nx equ MINDISTANCE+MAXLENGTH\ndat #x, #2*MAXPROCESSES\n"
	want := []g.Instruction{
		{Op: g.DAT, OpMode: g.F, AMode: g.IMMEDIATE, A: g.Address(uint64(cfg.Distance) % M), BMode: g.IMMEDIATE, B: g.Address(uint64(cfg.Length) % M)},
		{Op: g.DAT, OpMode: g.F, AMode: g.IMMEDIATE, A: g.Address(uint64(cfg.Processes) % M), BMode: g.IMMEDIATE, B: g.Address(M - 1)},
		{Op: g.DAT, OpMode: g.F, AMode: g.IMMEDIATE, A: g.Address((uint64(cfg.Distance) + uint64(cfg.Length)) % M), BMode: g.IMMEDIATE, B: g.Address(2 * uint64(cfg.Processes) % M)},
	}
	w, err := g.CompileWarrior(strings.NewReader(src), cfg)
	switch {
	case cfg.Length < 3:
		if err == nil {
			c.fail("history-dependent-assembly", sc.witness(), fmt.Sprintf("%s: a three-line program was accepted under %s", where, cfgStr(cfg)))
		}
	case err != nil:
		c.fail("history-dependent-assembly", sc.witness(), fmt.Sprintf("%s: the predefined-constant program was refused under %s: %v", where, cfgStr(cfg), err))
	case hx.CoreStr(w.Code) != hx.CoreStr(want):
		c.fail("history-dependent-assembly", sc.witness(), fmt.Sprintf("%s: under %s the predefined-constant program assembled to %s, it denotes %s", where, cfgStr(cfg), hx.CoreStr(w.Code), hx.CoreStr(want)))
	}
	// 2. a '94-only mode: refused exactly under ICWS'88
	w, err = g.CompileWarrior(strings.NewReader("mov.i }1, 2\n"), cfg)
	if legacy && err == nil {
		c.fail("history-dependent-assembly", sc.witness(), fmt.Sprintf("%s: `mov.i }1, 2` was accepted under %s: %s", where, cfgStr(cfg), hx.CoreStr(w.Code)))
	}
	if !legacy && (err != nil || len(w.Code) != 1 || w.Code[0] != (g.Instruction{Op: g.MOV, OpMode: g.I, AMode: g.A_INCREMENT, A: 1, BMode: g.DIRECT, B: 2})) {
		c.fail("history-dependent-assembly", sc.witness(), fmt.Sprintf("%s: `mov.i }1, 2` under %s gave %s, %v", where, cfgStr(cfg), hx.CoreStr(w.Code), err))
	}
	// 3. a battle whose course depends on the core size, both limits, the
	// process limit and the cycle limit: a split ring that copies itself far
	// ahead and reads far behind
	far := g.Address(M / 2)
	code := []g.Instruction{
		{Op: g.SPL, OpMode: g.B, AMode: g.DIRECT, A: 0, BMode: g.DIRECT, B: 0},
		{Op: g.MOV, OpMode: g.I, AMode: g.DIRECT, A: g.Address(M - 1), BMode: g.B_INCREMENT, B: far},
		{Op: g.ADD, OpMode: g.AB, AMode: g.IMMEDIATE, A: far, BMode: g.DIRECT, B: g.Address(M - 1)},
		{Op: g.JMZ, OpMode: g.B, AMode: g.DIRECT, A: g.Address(M - 3), BMode: g.DIRECT, B: far - 1},
	}
	if cfg.Length < 4 {
		code = code[:cfg.Length]
	}
	sim, err := g.NewSimulator(cfg)
	if err != nil {
		c.fail("history-dependent-battle", sc.witness(), fmt.Sprintf("%s: %s refused: %v", where, cfgStr(cfg), err))
		return
	}
	gw, err := sim.AddWarrior(&g.WarriorData{Code: code, Start: 0})
	if err != nil {
		c.fail("history-dependent-battle", sc.witness(), fmt.Sprintf("%s: AddWarrior under %s: %v", where, cfgStr(cfg), err))
		return
	}
	sim.SpawnWarrior(0, g.Address(M-2))
	sim.Run()
	m := ref.NewMars(M, uint64(cfg.ReadLimit), uint64(cfg.WriteLimit), uint64(cfg.Processes), uint64(cfg.Cycles))
	m.Add()
	m.Spawn(0, code, 0, M-2)
	for m.Active() {
		m.Cycle()
	}
	core := make([]g.Instruction, M)
	for a := range core {
		core[a] = sim.GetMem(g.Address(a))
	}
	q := []uint64{}
	for _, a := range gw.Queue() {
		q = append(q, uint64(a))
	}
	got := fmt.Sprintf("alive=%v cycles=%d queue=%v core=%s", gw.Alive(), sim.CycleCount(), q, hx.CoreStr(core))
	exp := fmt.Sprintf("alive=%v cycles=%d queue=%v core=%s", m.Ws[0].Alive, m.Cycles, append([]uint64{}, m.Ws[0].Q...), hx.CoreStr(m.Core))
	if !probeOutcomes[exp] {
		probeOutcomes[exp] = true
		c.Rep.Count("c14:distinct-probe-battle-outcomes")
	}
	if got != exp {
		c.fail("history-dependent-battle", sc.witness(), fmt.Sprintf("%s: the probe battle under %s ended as %s; the reference MARS gives %s", where, cfgStr(cfg), trunc(got, 700), trunc(exp, 700)))
	}
}

var probeOutcomes = map[string]bool{}

func trunc(s string, n int) string {
	if len(s) > n {
		return s[:n] + "..."
	}
	return s
}

var cfgBases = []g.SimulatorConfig{
	{Mode: g.ICWS94, CoreSize: 24, Processes: 5, Cycles: 40, ReadLimit: 24, WriteLimit: 24, Length: 6, Distance: 7},
	{Mode: g.ICWS94, CoreSize: 8000, Processes: 8000, Cycles: 300, ReadLimit: 8000, WriteLimit: 8000, Length: 100, Distance: 100},
	{Mode: g.ICWS94, CoreSize: 800, Processes: 800, Cycles: 200, ReadLimit: 800, WriteLimit: 800, Length: 20, Distance: 20},
}

// RunCfgSeq walks each neighbourhood forwards, backwards, and with the base
// before and after every neighbour.
func (c *Ctx) RunCfgSeq() {
	n := 0
	for bi := range cfgBases {
		n += c.cfgSeq(bi)
	}
	c.Rep.Bound += fmt.Sprintf("; configuration neighbourhoods in one process: %d bases x (the base and up to 19 single-field or field-exchange changes: mode, core size, processes, cycles, read limit, write limit, length, distance), used forwards, backwards and with the base between every two neighbours (%d uses): each use assembles a program of all four predefined constants and a '94-only mode and runs a probe battle that depends on core size, both limits, process and cycle limit, compared with the by-construction meaning and the reference MARS", len(cfgBases), n)
}

func (c *Ctx) cfgSeq(bi int) int {
	sc := &Scenario{Mode: "cfgseq", Jobs: []int{bi}}
	ns := cfgNeighbours(cfgBases[bi])
	n := 0
	for i, cfg := range ns {
		c.cfgProbe(cfg, fmt.Sprintf("forward pass, use %d", i), sc)
		n++
	}
	for i := len(ns) - 1; i >= 0; i-- {
		c.cfgProbe(ns[i], fmt.Sprintf("backward pass, use %d", i), sc)
		n++
	}
	for i := 1; i < len(ns); i++ {
		c.cfgProbe(ns[i], fmt.Sprintf("alternating pass, neighbour %d", i), sc)
		c.cfgProbe(ns[0], fmt.Sprintf("alternating pass, base after neighbour %d", i), sc)
		n += 2
	}
	c.Rep.Count("c14:configuration-neighbourhoods")
	return n
}

package e7

// Re-adding the caller's data (C14 "a simulator keeps its own copy of every
// warrior added to it"): the same *WarriorData is handed to AddWarrior two or
// three times - to one simulator or to two - with a mutation of the caller's
// data between the calls. Every warrior must be the one a fresh simulator
// gets when each AddWarrior is given its own deep copy of the data as it was
// at that call (differential against a run that never shares a pointer).

import (
	"fmt"

	g "github.com/bobertlo/gmars"

	"verif/mc/hx"
)

var readdCfg = g.SimulatorConfig{Mode: g.ICWS94, CoreSize: 16, Processes: 3, Cycles: 20, ReadLimit: 16, WriteLimit: 16, Length: 4, Distance: 4}

func deepCopy(d *g.WarriorData) *g.WarriorData {
	c := *d
	c.Code = append([]g.Instruction(nil), d.Code...)
	return &c
}

// readdRun adds the data (len(muts)+1) times with muts[i] applied before add
// i+1. shared: the caller's one variable is passed every time; otherwise a
// fresh deep copy per call. twoSims: the adds alternate between two simulators.
func readdRun(muts []int, shared, twoSims bool) (trace []string, pan string) {
	defer func() {
		if p := recover(); p != nil {
			pan = fmt.Sprint(p)
		}
	}()
	var sims []g.Simulator
	ns := 1
	if twoSims {
		ns = 2
	}
	for i := 0; i < ns; i++ {
		s, err := g.NewSimulator(readdCfg)
		if err != nil {
			return nil, err.Error()
		}
		sims = append(sims, s)
	}
	data := isoWarrior()
	type added struct {
		sim g.Simulator
		idx int
		w   g.Warrior
	}
	var ws []added
	count := make([]int, ns)
	for k := 0; k <= len(muts); k++ {
		if k > 0 && muts[k-1] >= 0 {
			mutate(data, muts[k-1])
		}
		arg := data
		if !shared {
			arg = deepCopy(data)
		}
		si := k % ns
		w, err := sims[si].AddWarrior(arg)
		if err != nil {
			trace = append(trace, fmt.Sprintf("add %d refused", k))
			continue
		}
		trace = append(trace, fmt.Sprintf("add %d: len=%d name=%q author=%q listing=%q", k, w.Length(), w.Name(), w.Author(), w.LoadCode()))
		ws = append(ws, added{sims[si], count[si], w})
		count[si]++
	}
	// the caller's data changes once more after the last add
	mutate(data, 23)
	for j, a := range ws {
		a.sim.SpawnWarrior(a.idx, g.Address(5*j+1))
	}
	obs := func() {
		for si, s := range sims {
			core := make([]g.Instruction, readdCfg.CoreSize)
			for a := range core {
				core[a] = s.GetMem(g.Address(a))
			}
			trace = append(trace, fmt.Sprintf("sim %d cycles=%d core=%s", si, s.CycleCount(), hx.CoreStr(core)))
		}
		for j, a := range ws {
			trace = append(trace, fmt.Sprintf("warrior %d queue=%v alive=%v len=%d listing=%q", j, a.w.Queue(), a.w.Alive(), a.w.Length(), a.w.LoadCode()))
		}
	}
	obs()
	for i := 0; i < 4; i++ {
		for _, s := range sims {
			s.RunCycle()
		}
		obs()
	}
	return
}

type ReaddCase struct {
	Muts    []int `json:"mutations"`
	TwoSims bool  `json:"two_simulators,omitempty"`
	Bare    bool  `json:"no_metadata,omitempty"`
}

func (c *Ctx) checkReadd(k *ReaddCase) {
	rep := c.Rep
	rep.States++
	rep.Transitions++
	rep.Traces++
	isoBare = k.Bare
	defer func() { isoBare = false }()
	sc := &Scenario{Mode: "readd", Readd: k}
	want, pan0 := readdRun(k.Muts, false, k.TwoSims)
	got, pan := readdRun(k.Muts, true, k.TwoSims)
	if pan != "" && pan0 == "" {
		c.fail("panic", sc.witness(), pan)
		return
	}
	if pan0 != "" {
		return // the independent-copies run itself failed: outside this space
	}
	if len(got) != len(want) {
		c.fail("re-added-data-not-copied", sc.witness(), fmt.Sprintf("%d observations with the shared variable, %d with an independent copy per call", len(got), len(want)))
		return
	}
	for i := range got {
		if got[i] != want[i] {
			d := isoWarrior()
			var what []string
			for _, m := range k.Muts {
				if m >= 0 {
					what = append(what, mutate(d, m))
				} else {
					what = append(what, "nothing")
				}
			}
			c.fail("re-added-data-not-copied", sc.witness(), fmt.Sprintf("the same variable handed to AddWarrior %d times, changed in between (%v): observation %d is %s; with an independent copy per call it is %s", len(k.Muts)+1, what, i, got[i], want[i]))
			return
		}
	}
	rep.Count("c14:re-add-sequences")
}

// RunReadd: every mutation between two adds (one and two simulators, with and
// without metadata), the unchanged data added twice, and every pair of
// mutations from a subset between three adds.
func (c *Ctx) RunReadd() {
	n := 0
	for _, two := range []bool{false, true} {
		for _, bare := range []bool{false, true} {
			c.checkReadd(&ReaddCase{Muts: []int{-1}, TwoSims: two, Bare: bare})
			n++
			for m := 0; m < nMutations(); m++ {
				c.checkReadd(&ReaddCase{Muts: []int{m}, TwoSims: two, Bare: bare})
				n++
			}
		}
		sub := []int{0, 3, 9, 17, 18, 19, 20, 21, 23}
		for _, m1 := range sub {
			for _, m2 := range sub {
				c.checkReadd(&ReaddCase{Muts: []int{m1, m2}, TwoSims: two})
				n++
			}
		}
	}
	c.Rep.Bound += fmt.Sprintf("; the caller's one WarriorData variable handed to AddWarrior two and three times (one simulator, and two simulators alternately) with each of the %d mutations (or none) in between, then a 4-cycle battle of all the warriors: %d sequences compared with the same calls given an independent deep copy each", nMutations(), n)
}


// UntouchedCase: one shape of caller data.
type UntouchedCase struct {
	Len   int  `json:"len"`
	Start int  `json:"start"`
	Wide  bool `json:"fields_beyond_core,omitempty"`
	Bare  bool `json:"no_metadata,omitempty"`
	Spare int  `json:"spare_capacity,omitempty"`
}

// checkUntouched: AddWarrior, a spawn and a short battle leave the caller's
// WarriorData (and the spare capacity behind its code) exactly as it was,
// whatever shape it has - also entry points at and beyond the code length.
func (c *Ctx) checkUntouched(k *UntouchedCase) {
	rep := c.Rep
	rep.States++
	rep.Transitions++
	rep.Traces++
	sc := &Scenario{Mode: "untouched", Untouched: k}
	base := isoWarriorFull().Code
	backing := make([]g.Instruction, k.Len+k.Spare)
	for i := range backing {
		backing[i] = base[i%len(base)]
		if k.Wide {
			backing[i].A += g.Address(16 * (i + 1))
			backing[i].B += g.Address(1600 * (i + 1))
		}
	}
	data := &g.WarriorData{Name: "iso", Author: "au", Strategy: "st", Code: backing[:k.Len], Start: k.Start}
	if k.Bare {
		data.Name, data.Author, data.Strategy = "", "", ""
	}
	snap := func() string {
		return fmt.Sprintf("%s start=%d len=%d cap=%d %q %q %q backing=%s", hx.CoreStr(data.Code), data.Start, len(data.Code), cap(data.Code), data.Name, data.Author, data.Strategy, hx.CoreStr(backing))
	}
	before := snap()
	pan := ""
	func() {
		defer func() {
			if p := recover(); p != nil {
				pan = fmt.Sprint(p)
			}
		}()
		sim, err := g.NewSimulator(readdCfg)
		if err != nil {
			return
		}
		if _, err := sim.AddWarrior(data); err != nil {
			return
		}
		if after := snap(); after != before {
			c.fail("battle-changed-caller-data", sc.witness(), fmt.Sprintf("AddWarrior changed the caller's data: before %s; after %s", before, after))
			return
		}
		sim.SpawnWarrior(0, 3)
		for i := 0; i < 3; i++ {
			sim.RunCycle()
		}
		sim.Reset()
	}()
	_ = pan // a panic on odd data is not this property's concern (C04/C13 own it)
	if after := snap(); after != before {
		c.fail("battle-changed-caller-data", sc.witness(), fmt.Sprintf("caller's data before: %s; after AddWarrior, spawn, three cycles and Reset: %s", before, after))
		return
	}
	rep.Count("c14:caller-data-shapes")
}

func (c *Ctx) RunUntouched() {
	n := 0
	for _, L := range []int{0, 1, 3, 4} {
		for _, st := range []int{0, 1, L - 1, L, L + 1, L + 4, 2 * L, 100} {
			if st < 0 {
				continue
			}
			for _, wide := range []bool{false, true} {
				for _, bare := range []bool{false, true} {
					for _, spare := range []int{0, 2} {
						c.checkUntouched(&UntouchedCase{Len: L, Start: st, Wide: wide, Bare: bare, Spare: spare})
						n++
					}
				}
			}
		}
	}
	c.Rep.Bound += fmt.Sprintf("; %d shapes of caller data (code length 0/1/3/4, entry points inside, at and beyond the code length, fields beyond the core, no metadata, spare capacity behind the code): AddWarrior, spawn, three cycles and Reset leave the data and the spare capacity untouched", n)
}

package e7

import (
	"fmt"
	"os"
	"os/exec"
	"path/filepath"
	"sort"
	"strings"
	"sync"

	g "github.com/bobertlo/gmars"
)

// jobSets of the free-running pass: every multiset of size 1..3 over the five
// job kinds plus a few of size 4.
func jobSets() [][]int {
	var out [][]int
	kinds := []int{JAsm1, JAsm2, JSim, JLoad, JAsm3, JAsm4, JAsm1b, JAsm88, JAsmErr, JAsmLbl, JSim2, JAsmOrg, JSim5}
	for _, a := range kinds {
		out = append(out, []int{a})
		for _, b := range kinds {
			if b < a {
				continue
			}
			out = append(out, []int{a, b})
			for _, c := range kinds {
				if c < b || c > JAsm3 {
					continue
				}
				out = append(out, []int{a, b, c})
			}
		}
	}
	out = append(out, []int{JAsm1, JAsm2, JSim, JLoad}, []int{JSim, JSim, JSim, JSim}, []int{JAsm2, JAsm2, JAsm3, JAsm3})
	return out
}

// RaceOnce runs one job set free-running with the given number of threads
// (jobs are repeated round robin) and compares with the sequential results.
// It is meant to run in a -race build; the detector writes to GORACE's log_path.
func RaceOnce(jobs []int, threads, reps int, solo map[int]string) (mismatch string) {
	cfg := g.ConfigNopNano
	shared := SharedWarrior()
	for r := 0; r < reps; r++ {
		res := make([]string, threads)
		var wg sync.WaitGroup
		for t := 0; t < threads; t++ {
			wg.Add(1)
			go func(t int) {
				defer wg.Done()
				res[t] = RunJob(jobs[t%len(jobs)], cfg, shared)
			}(t)
		}
		wg.Wait()
		// the sequential results are computed only after the first concurrent
		// round: a sequential warm-up would fill lazily built shared state
		// (caches, pools) and hide races on its construction
		if len(solo) == 0 {
			for _, j := range jobs {
				if e, ok := Expected(j); ok {
					solo[j] = e
				} else {
					solo[j] = RunJob(j, cfg, SharedWarrior())
				}
			}
		}
		for t := 0; t < threads; t++ {
			if res[t] != solo[jobs[t%len(jobs)]] {
				return fmt.Sprintf("thread %d (%s) returned %s; sequentially it returns %s", t, jobNames[jobs[t%len(jobs)]], res[t], solo[jobs[t%len(jobs)]])
			}
		}
	}
	return ""
}

// RunRace is the driver of the free-running pass: each job set runs in a
// child process of this (race-built) binary with the detector's log
// redirected to a file; a non-empty log is a violation.
func (c *Ctx) RunRace(tier string) {
	rep := c.Rep
	reps := 5
	if tier == "thorough" {
		reps = 20
	}
	sets := jobSets()
	for i, js := range sets {
		if !c.Sh.Mine(i) || c.expired() {
			continue
		}
		c.raceOne(js, reps)
	}
	rep.Bound = fmt.Sprintf("free-running race-detector pass (complement, sampled schedules): %d job sets of size 1..4 x thread counts {1,2,4,8,16,32} x %d repetitions in a -race build; any detector report or result differing from the sequential one is a violation", len(sets), reps)
	rep.Sample((&Scenario{Jobs: sets[len(sets)/2], Mode: "race"}).describe())
}

// raceOne runs one job set in a child process and inspects the detector log.
func (c *Ctx) raceOne(js []int, reps int) {
	rep := c.Rep
	self, err := os.Executable()
	if err != nil {
		rep.Exhaustive = false
		rep.Note("cannot locate the harness binary: " + err.Error())
		return
	}
	dir, err := os.MkdirTemp(filepath.Dir(self), "race")
	if err != nil {
		rep.Exhaustive = false
		rep.Note("cannot create a scratch directory: " + err.Error())
		return
	}
	defer os.RemoveAll(dir)
	sc := &Scenario{Jobs: js, Mode: "race"}
	rep.States++
	logp := filepath.Join(dir, "log")
	cmd := exec.Command(self, "e7", "-job", "race-child", "-replay", sc.witness(), "-cap", fmt.Sprint(reps))
	cmd.Env = append(os.Environ(), "GORACE=log_path="+logp+" exitcode=0 halt_on_error=0", "GOMAXPROCS=16")
	out, err := cmd.CombinedOutput()
	rep.Transitions += int64(6 * reps)
	rep.Traces++
	if err != nil {
		c.fail("race-pass-crashed", sc.witness(), fmt.Sprintf("%v: %s", err, tail(string(out), 600)))
		return
	}
	if s := strings.TrimSpace(string(out)); strings.Contains(s, "MISMATCH") {
		c.fail("result-differs-under-concurrency", sc.witness(), "a job returned a result different from its sequential result")
		rep.Note(tail(s, 400))
	}
	logs, _ := filepath.Glob(logp + "*")
	for _, l := range logs {
		b, _ := os.ReadFile(l)
		if strings.Contains(string(b), "DATA RACE") {
			c.fail("data-race", sc.witness(), "the race detector reports a data race in: "+raceFunctions(string(b)))
			rep.Note(tail(firstRace(string(b)), 1200))
			break
		}
	}
}

// raceFunctions lists (sorted, without addresses or goroutine numbers) the
// gmars functions named in the detector's reports.
func raceFunctions(s string) string {
	seen := map[string]bool{}
	for _, l := range strings.Split(s, "\n") {
		l = strings.TrimSpace(l)
		if strings.HasPrefix(l, "github.com/bobertlo/gmars.") {
			f := strings.TrimPrefix(l, "github.com/bobertlo/gmars.")
			if i := strings.Index(f, "("); i > 0 && !strings.HasPrefix(f, "(") {
				f = f[:i]
			} else if strings.HasPrefix(f, "(") {
				if j := strings.LastIndex(f, "("); j > 0 {
					f = f[:j]
				}
			}
			seen[f] = true
		}
	}
	var fs []string
	for f := range seen {
		fs = append(fs, f)
	}
	sort.Strings(fs)
	if len(fs) > 6 {
		fs = fs[:6]
	}
	return strings.Join(fs, ", ")
}

func tail(s string, n int) string {
	if len(s) > n {
		return s[:n]
	}
	return s
}

func firstRace(s string) string {
	i := strings.Index(s, "WARNING: DATA RACE")
	if i < 0 {
		return s
	}
	s = s[i:]
	if j := strings.Index(s[10:], "=================="); j > 0 {
		s = s[:j+10]
	}
	// keep the frames that name gmars
	var keep []string
	for _, l := range strings.Split(s, "\n") {
		if strings.Contains(l, "gmars") || strings.Contains(l, "DATA RACE") || strings.Contains(l, " by goroutine") {
			keep = append(keep, strings.TrimSpace(l))
		}
	}
	return strings.Join(keep, " | ")
}

// RaceChild runs inside the child process.
func RaceChild(sc *Scenario, reps int) {
	solo := map[int]string{}
	// the widest fan-out first, on a cold process
	for _, th := range []int{32, 16, 8, 4, 2, 1} {
		if m := RaceOnce(sc.Jobs, th, reps, solo); m != "" {
			fmt.Println("MISMATCH with", th, "threads:", m)
			return
		}
	}
	fmt.Println("ok")
}

// Package e3 is the API-sequence engine (C13): breadth-first search over the
// reachable states of the real simulator under an alphabet of API calls, with
// a reference state machine (R-api) evaluated in lock step, a full query
// battery in every state and a reset-versus-fresh differential.
package e3

import (
	"fmt"
	"strconv"
	"strings"
	"time"

	g "github.com/bobertlo/gmars"

	"verif/mc/hx"
	"verif/mc/ref"
)

// configuration of the searched simulator (the default one, and the second one
// selected by SetConfig; a witness of the second carries a "cfg(M,P,C)" prefix)
var (
	M      uint64 = 4
	P      uint64 = 2
	Cycles uint64 = 3
)

func SetConfig(m, p, c uint64) { M, P, Cycles = m, p, c }

func cfgPrefix() string {
	if M == 4 && P == 2 && Cycles == 3 {
		return ""
	}
	return fmt.Sprintf("cfg(%d,%d,%d) ", M, P, Cycles)
}

// Op is one API call of the alphabet.
type Op struct {
	Kind string // add spawn cycle run reset
	A    int    // add: warrior kind; spawn: index
	Off  uint64 // spawn: offset
}

func (o Op) String() string {
	switch o.Kind {
	case "add":
		return fmt.Sprintf("add(%d)", o.A)
	case "spawn":
		return fmt.Sprintf("spawn(%d,%d)", o.A, o.Off)
	}
	return o.Kind
}

func ParseOps(s string) ([]Op, error) {
	var out []Op
	for _, t := range strings.Fields(s) {
		switch {
		case t == "cycle" || t == "run" || t == "reset":
			out = append(out, Op{Kind: t})
		case strings.HasPrefix(t, "add("):
			k, err := strconv.Atoi(strings.TrimSuffix(t[4:], ")"))
			if err != nil {
				return nil, err
			}
			out = append(out, Op{Kind: "add", A: k})
		case strings.HasPrefix(t, "spawn("):
			var i int
			var off uint64
			if _, err := fmt.Sscanf(t, "spawn(%d,%d)", &i, &off); err != nil {
				return nil, err
			}
			out = append(out, Op{Kind: "spawn", A: i, Off: off})
		default:
			return nil, fmt.Errorf("bad op %q", t)
		}
	}
	return out, nil
}

func OpsStr(ops []Op) string {
	s := make([]string, len(ops))
	for i, o := range ops {
		s[i] = o.String()
	}
	return strings.Join(s, " ")
}

// warrior kinds of the alphabet
func kindData(k int) *g.WarriorData {
	D := g.DIRECT
	switch k {
	case 0: // imp
		return &g.WarriorData{Name: "imp", Code: []g.Instruction{{Op: g.MOV, OpMode: g.I, AMode: D, A: 0, BMode: D, B: 1}}, Start: 0}
	case 1: // dies at once
		return &g.WarriorData{Name: "dat", Code: []g.Instruction{{Op: g.DAT, OpMode: g.F, AMode: D, A: 0, BMode: D, B: 0}}, Start: 0}
	default: // spl 0 / jmp -1, entry point 1
		return &g.WarriorData{Name: "ring", Code: []g.Instruction{{Op: g.SPL, OpMode: g.B, AMode: D, A: 0, BMode: D, B: 0}, {Op: g.JMP, OpMode: g.B, AMode: D, A: g.Address(M - 1), BMode: D, B: 0}}, Start: 1}
	}
}

// impl is the real simulator with its warrior handles.
type impl struct {
	sim g.Simulator
	hs  []g.Warrior
}

func newImpl() (*impl, error) {
	cfg := g.SimulatorConfig{Mode: g.ICWS94, CoreSize: g.Address(M), Processes: g.Address(P), Cycles: g.Address(Cycles), ReadLimit: g.Address(M), WriteLimit: g.Address(M), Length: g.Address(M), Distance: 0}
	sim, err := g.NewSimulator(cfg)
	if err != nil {
		return nil, err
	}
	return &impl{sim: sim}, nil
}

// model is R-api.
type model struct {
	m       *ref.Mars
	kinds   []int
	pending []bool // between Reset and respawn: Queue/NextPC unspecified
	lastOff []int64
}

func newModel() *model { return &model{m: ref.NewMars(M, M, M, P, Cycles)} }

func (md *model) active() bool { return md.m.Active() }

// result of an op as the model defines it ("?" = unspecified)
func (md *model) apply(o Op) string {
	switch o.Kind {
	case "add":
		md.m.Add()
		md.kinds = append(md.kinds, o.A)
		md.pending = append(md.pending, false)
		md.lastOff = append(md.lastOff, -1)
		return "ok"
	case "spawn":
		if o.A < 0 || o.A >= len(md.kinds) {
			return "err"
		}
		if md.m.Ws[o.A].Alive {
			return "err"
		}
		d := kindData(md.kinds[o.A])
		md.m.Spawn(o.A, d.Code, d.Start, o.Off)
		md.pending[o.A] = false
		md.lastOff[o.A] = int64(o.Off)
		return "ok"
	case "cycle":
		if !md.active() {
			return "?"
		}
		md.m.Cycle()
		return fmt.Sprintf("ret=%d", md.m.Living)
	case "run":
		if len(md.kinds) == 0 {
			return "res=nil"
		}
		for md.active() {
			md.m.Cycle()
		}
		var fl []string
		for _, w := range md.m.Ws {
			fl = append(fl, fmt.Sprint(w.Alive))
		}
		return "res=[" + strings.Join(fl, " ") + "]"
	case "reset":
		md.m.Reset()
		for i := range md.pending {
			md.pending[i] = true
		}
		return "ok"
	}
	return "bad-op"
}

// apply runs the op on the real simulator (panics recovered).
func (im *impl) apply(o Op) (res string) {
	defer func() {
		if r := recover(); r != nil {
			res = "panic: " + fmt.Sprint(r)
		}
	}()
	switch o.Kind {
	case "add":
		h, err := im.sim.AddWarrior(kindData(o.A))
		if err != nil || h == nil {
			return "err"
		}
		im.hs = append(im.hs, h)
		return "ok"
	case "spawn":
		if err := im.sim.SpawnWarrior(o.A, g.Address(o.Off)); err != nil {
			return "err"
		}
		return "ok"
	case "cycle":
		return fmt.Sprintf("ret=%d", im.sim.RunCycle())
	case "run":
		r := im.sim.Run()
		if r == nil {
			return "res=nil"
		}
		var fl []string
		for _, b := range r {
			fl = append(fl, fmt.Sprint(b))
		}
		return "res=[" + strings.Join(fl, " ") + "]"
	case "reset":
		im.sim.Reset()
		return "ok"
	}
	return "bad-op"
}

// observe renders the observable state of the real simulator through the
// query battery. Any panic inside a query is part of the observation.
func (im *impl) observe() (obs string, raw string) {
	var sb, rb strings.Builder
	q := func(name string, f func() string) string {
		var out string
		func() {
			defer func() {
				if r := recover(); r != nil {
					out = "panic: " + fmt.Sprint(r)
				}
			}()
			out = f()
		}()
		return name + "=" + out
	}
	sb.WriteString(q("size", func() string { return fmt.Sprint(im.sim.CoreSize(), im.sim.MaxCycles()) }) + " ")
	sb.WriteString(q("cycles", func() string { return fmt.Sprint(im.sim.CycleCount()) }) + " ")
	sb.WriteString(q("count", func() string { return fmt.Sprint(im.sim.WarriorCount()) }) + " ")
	sb.WriteString(q("living", func() string { return fmt.Sprint(im.sim.WarriorLivingCount()) }) + " ")
	sb.WriteString(q("core", func() string {
		c := make([]g.Instruction, M)
		for a := 0; a < int(M); a++ {
			c[a] = im.sim.GetMem(g.Address(a))
		}
		return hx.CoreStr(c)
	}) + " ")
	for _, a := range []uint64{M, 2*M + 3} {
		sb.WriteString(q(fmt.Sprintf("mem%d", a), func() string { return hx.InsStr(im.sim.GetMem(g.Address(a))) }) + " ")
	}
	n := len(im.hs)
	for i := -1; i <= n+1; i++ {
		sb.WriteString(q(fmt.Sprintf("get%d", i), func() string {
			w := im.sim.GetWarrior(i)
			if w == nil {
				return "nil"
			}
			return fmt.Sprintf("len%d", w.Length())
		}) + " ")
	}
	for i, h := range im.hs {
		sb.WriteString(q(fmt.Sprintf("alive%d", i), func() string { return fmt.Sprint(h.Alive()) }) + " ")
		sb.WriteString(q(fmt.Sprintf("len%d", i), func() string { return fmt.Sprint(h.Length()) }) + " ")
		sb.WriteString(q(fmt.Sprintf("name%d", i), func() string {
			return h.Name() + "/" + h.Author() + "/" + fmt.Sprint(strings.Count(h.LoadCode(), "\n"))
		}) + " ")
		// Queue and NextPC are compared only where the model specifies them; raw keeps them for the state key
		rb.WriteString(q(fmt.Sprintf("queue%d", i), func() string {
			qs := h.Queue()
			out := fmt.Sprint(qs)
			// the returned slice belongs to the caller: overwriting it must not reach the simulator
			for k := range qs {
				qs[k] = 12345
			}
			return out
		}) + " ")
		rb.WriteString(q(fmt.Sprintf("next%d", i), func() string {
			pc, err := h.NextPC()
			if err != nil {
				return "err"
			}
			return fmt.Sprint(pc)
		}) + " ")
	}
	return sb.String(), rb.String()
}

// expected renders what R-api says the same queries return.
func (md *model) expected() (obs string, queues []string, nexts []string) {
	var sb strings.Builder
	fmt.Fprintf(&sb, "size=%d %d ", M, Cycles)
	fmt.Fprintf(&sb, "cycles=%d count=%d living=%d core=%s ", md.m.Cycles, len(md.kinds), md.m.Living, hx.CoreStr(md.m.Core))
	for _, a := range []uint64{M, 2*M + 3} {
		fmt.Fprintf(&sb, "mem%d=%s ", a, hx.InsStr(md.m.Core[a%M]))
	}
	n := len(md.kinds)
	for i := -1; i <= n+1; i++ {
		if i < 0 || i >= n {
			fmt.Fprintf(&sb, "get%d=nil ", i)
		} else {
			fmt.Fprintf(&sb, "get%d=len%d ", i, len(kindData(md.kinds[i]).Code))
		}
	}
	for i, w := range md.m.Ws {
		kd := kindData(md.kinds[i])
		// the listing has one line per instruction plus the ORG line ('94)
		fmt.Fprintf(&sb, "alive%d=%v len%d=%d name%d=%s/%s/%d ", i, w.Alive, i, len(kd.Code), i, kd.Name, kd.Author, len(kd.Code)+1)
		if md.pending[i] {
			queues = append(queues, "?")
			nexts = append(nexts, "?")
			continue
		}
		qs := make([]g.Address, len(w.Q))
		for k, x := range w.Q {
			qs[k] = g.Address(x)
		}
		if !w.Alive {
			qs = []g.Address{}
		}
		queues = append(queues, fmt.Sprintf("queue%d=%v", i, qs))
		if w.Alive && len(w.Q) > 0 {
			nexts = append(nexts, fmt.Sprintf("next%d=%d", i, w.Q[0]))
		} else {
			nexts = append(nexts, fmt.Sprintf("next%d=err", i))
		}
	}
	return sb.String(), queues, nexts
}

func (md *model) key() string {
	return fmt.Sprintf("%v|%v|%v", md.kinds, md.pending, md.lastOff)
}

// Engine state.
type Engine struct {
	Rep      *hx.Report
	WD       *hx.Watchdog
	Deadline time.Time
	MaxW     int
	MaxDepth int
	MaxState int
	Sh       hx.Shard
	class    []int // kinds of the warriors this search may add, in order
}

func (e *Engine) fail(kind string, hist []Op, detail string) {
	if e.Rep.Hit("C13", kind) {
		e.Rep.Add("C13", kind, cfgPrefix()+OpsStr(hist), detail)
	}
}

// build replays a history on fresh objects, comparing results with the model
// on the way when check is set. Returns nil if the impl panicked fatally.
func (e *Engine) build(hist []Op, check bool) (*impl, *model, bool) {
	im, err := newImpl()
	if err != nil {
		e.fail("config-rejected", hist, err.Error())
		return nil, nil, false
	}
	md := newModel()
	for i, o := range hist {
		last := i == len(hist)-1
		e.WD.Begin("C13", "call-does-not-return", func() string { return OpsStr(hist[:i+1]) })
		got := im.apply(o)
		e.WD.End()
		want := md.apply(o)
		if check && last {
			e.Rep.Transitions++
			if strings.HasPrefix(got, "panic") {
				e.fail("panic", hist, fmt.Sprintf("%s: %s", o, got))
				return im, md, false
			}
			if want != "?" && got != want {
				e.fail("call-result", hist, fmt.Sprintf("%s returned %s, the state machine says %s", o, got, want))
			}
		} else if strings.HasPrefix(got, "panic") {
			return im, md, false
		}
	}
	return im, md, true
}

// compare runs the query battery and compares with the model.
func (e *Engine) compare(hist []Op, im *impl, md *model) (string, bool) {
	obs, raw := im.observe()
	obs2, _ := im.observe()
	e.Rep.Traces++
	ok := true
	if obs != obs2 {
		e.fail("queries-change-state", hist, fmt.Sprintf("first battery: %s; second: %s", obs, obs2))
		ok = false
	}
	want, queues, nexts := md.expected()
	if strings.Contains(obs, "panic") || strings.Contains(raw, "panic") {
		e.fail("query-panic", hist, obs+raw)
		return obs + raw, false
	}
	if obs != want {
		e.fail("observable-state", hist, fmt.Sprintf("gmars: %s; state machine: %s", obs, want))
		ok = false
	}
	rawf := strings.Fields(strings.ReplaceAll(raw, "= ", "="))
	_ = rawf
	for i := range queues {
		if queues[i] != "?" && !strings.Contains(raw, queues[i]+" ") {
			e.fail("queue", hist, fmt.Sprintf("gmars: %s; state machine: %s", raw, queues[i]))
			ok = false
		}
		if nexts[i] != "?" && !strings.Contains(raw, nexts[i]+" ") {
			e.fail("next-pc", hist, fmt.Sprintf("gmars: %s; state machine: %s", raw, nexts[i]))
			ok = false
		}
	}
	return obs + raw, ok
}

func (e *Engine) alphabet(md *model) []Op {
	var ops []Op
	n := len(md.kinds)
	if n < e.MaxW {
		if e.class != nil {
			ops = append(ops, Op{Kind: "add", A: e.class[n]})
		} else {
			for k := 0; k < 3; k++ {
				ops = append(ops, Op{Kind: "add", A: k})
			}
		}
	}
	for i := -1; i <= n+1; i++ {
		for _, off := range []uint64{0, M - 1, M, 2*M + 3} {
			ops = append(ops, Op{Kind: "spawn", A: i, Off: off})
		}
	}
	ops = append(ops, Op{Kind: "cycle"}, Op{Kind: "run"}, Op{Kind: "reset"})
	return ops
}

// resetClause: Reset + respawn at the same places must be indistinguishable
// from a fresh simulator given the same adds and spawns.
func (e *Engine) resetClause(hist []Op, md *model, depth int) {
	var adds, spawns []Op
	for i, k := range md.kinds {
		adds = append(adds, Op{Kind: "add", A: k})
		_ = i
	}
	// respawn in index order every warrior that has been spawned at least once
	for i, off := range md.lastOff {
		if off >= 0 {
			spawns = append(spawns, Op{Kind: "spawn", A: i, Off: uint64(off)})
		}
	}
	a := append(append(append([]Op{}, hist...), Op{Kind: "reset"}), spawns...)
	b := append(append([]Op{}, adds...), spawns...)
	var tails [][]Op
	tails = append(tails, nil)
	small := []Op{{Kind: "cycle"}, {Kind: "run"}, {Kind: "reset"}, {Kind: "spawn", A: 0, Off: 1}}
	var gen func(cur []Op, d int)
	gen = func(cur []Op, d int) {
		if d == 0 {
			return
		}
		for _, o := range small {
			nx := append(append([]Op{}, cur...), o)
			tails = append(tails, nx)
			gen(nx, d-1)
		}
	}
	gen(nil, depth)
	for _, t := range tails {
		ia, _, oka := e.build(append(append([]Op{}, a...), t...), false)
		ib, _, okb := e.build(append(append([]Op{}, b...), t...), false)
		e.Rep.Transitions += 2
		if !oka || !okb {
			if oka != okb {
				e.fail("reset-vs-fresh", append(append([]Op{}, a...), t...), "one of the two simulators panicked, the other did not")
			}
			continue
		}
		oa, ra := ia.observe()
		ob, rb := ib.observe()
		e.Rep.Traces++
		if oa+ra != ob+rb {
			e.fail("reset-vs-fresh", append(append([]Op{}, a...), t...), fmt.Sprintf("after reset and respawn: %s; fresh simulator with [%s]: %s", oa+ra, OpsStr(append(append([]Op{}, b...), t...)), ob+rb))
		}
	}
	e.Rep.Count("c13:reset-differentials")
}

// Run partitions the search by the vector of warrior kinds that is added
// (states with different vectors are disjoint apart from shared prefixes) and
// runs one breadth-first search to closure per class of this shard.
func (e *Engine) Run(tier string) {
	n := 1
	for i := 0; i < e.MaxW; i++ {
		n *= 3
	}
	// the default configuration, then a second one with a larger core, a
	// process limit of 3 and more cycles (longer histories before the battle ends)
	cfgs := [][3]uint64{{4, 2, 3}, {6, 3, 5}}
	var bounds []string
	for ci, cf := range cfgs {
		SetConfig(cf[0], cf[1], cf[2])
		for c := 0; c < n; c++ {
			if !e.Sh.Mine(ci*n + c) {
				continue
			}
			cl := make([]int, e.MaxW)
			x := c
			for i := range cl {
				cl[i] = x % 3
				x /= 3
			}
			maxW := e.MaxW
			if ci > 0 && e.MaxW > 2 {
				// second configuration: at most two warriors (with three the reachable
				// set of a 6-cell core does not close within the tier's time)
				if cl[2] != 0 {
					continue
				}
				cl = cl[:2]
				e.MaxW = 2
			}
			e.class = cl
			e.search(tier)
			e.MaxW = maxW
		}
		if e.Rep.Bound != "" {
			bounds = append(bounds, e.Rep.Bound)
			e.Rep.Bound = ""
		}
	}
	SetConfig(4, 2, 3)
	// directed histories with many warriors (every prefix is checked like a
	// searched state): N adds, every warrior spawned, two cycles, Reset, two
	// respawns, a cycle and Run
	for ni, N := range []int{4, 5, 7, 8, 9, 10, 16, 17, 32, 33, 64, 65, 300} {
		if !e.Sh.Mine(ni) {
			continue
		}
		var h []Op
		for i := 0; i < N; i++ {
			h = append(h, Op{Kind: "add", A: []int{0, 2, 1}[i%3]})
		}
		for i := 0; i < N; i++ {
			h = append(h, Op{Kind: "spawn", A: i, Off: uint64(i) % (2 * M)})
		}
		h = append(h, Op{Kind: "cycle"}, Op{Kind: "cycle"}, Op{Kind: "reset"}, Op{Kind: "spawn", A: 0, Off: 0}, Op{Kind: "spawn", A: N - 1, Off: 1}, Op{Kind: "cycle"}, Op{Kind: "run"})
		from := 1
		if N > 40 {
			from = N // the long histories: prefixes from the last add on
		}
		for i := from; i <= len(h); i++ {
			im, md, ok := e.build(h[:i], true)
			if !ok {
				break
			}
			e.compare(h[:i], im, md)
			e.Rep.States++
		}
		e.Rep.Count("c13:many-warrior-histories")
	}
	e.Rep.Bound = strings.Join(bounds, " // ") + fmt.Sprintf("; each configuration partitioned into %d classes by the kinds of the warriors added (each class searched to closure separately; states shared between classes are counted once per class; the second configuration is searched with at most two warriors); directed histories with 4..65 and 300 warriors (adds, spawns, two cycles, Reset, respawns, cycle, Run), every prefix checked", n)
}

func (e *Engine) search(tier string) {
	rep := e.Rep
	resetDepth := 1
	if tier == "thorough" {
		resetDepth = 2
	}
	seen := map[string]bool{}
	type node struct{ hist []Op }
	frontier := []node{{nil}}
	im, md, _ := e.build(nil, false)
	k0, _ := e.compare(nil, im, md)
	seen[k0+md.key()] = true
	rep.States++
	depth := 0
	resetSeen := map[string]bool{}
	for len(frontier) > 0 && depth < e.MaxDepth {
		var next []node
		for _, nd := range frontier {
			if !e.Deadline.IsZero() && time.Now().After(e.Deadline) {
				rep.Exhaustive = false
				rep.Note("tier time cap reached before the search closed")
				frontier = nil
				next = nil
				break
			}
			_, md0, ok0 := e.build(nd.hist, false)
			if !ok0 {
				continue
			}
			for _, o := range e.alphabet(md0) {
				h := append(append([]Op{}, nd.hist...), o)
				im, md, ok := e.build(h, true)
				if !ok {
					continue // reported; do not explore beyond a panic
				}
				key, good := e.compare(h, im, md)
				key += md.key()
				if seen[key] {
					continue
				}
				seen[key] = true
				rep.States++
				rep.Count("c13:states-at-depth-" + fmt.Sprintf("%02d", len(h)))
				if !md.active() && md.m.Cycles > 0 {
					rep.Count("c13:states-with-a-finished-battle")
				}
				if !good {
					continue // do not build on a state that already disagrees
				}
				rk := md.key() + fmt.Sprint(md.m.Core, md.m.Cycles)
				if !resetSeen[rk] {
					resetSeen[rk] = true
					e.resetClause(h, md, resetDepth)
				}
				if len(seen) >= e.MaxState {
					rep.Exhaustive = false
					rep.Note(fmt.Sprintf("state cap %d reached", e.MaxState))
					frontier, next = nil, nil
					break
				}
				next = append(next, node{h})
			}
			if frontier == nil {
				break
			}
		}
		frontier = next
		depth++
	}
	if len(frontier) > 0 {
		rep.Exhaustive = false
		rep.Note(fmt.Sprintf("depth cap %d reached with %d states on the frontier", e.MaxDepth, len(frontier)))
	} else if rep.Exhaustive {
		rep.Count("c13:classes-searched-to-closure")
	}
	rep.Bound = fmt.Sprintf("M=%d P=%d cycles=%d, <=%d warriors of 3 kinds (imp, DAT, SPL/JMP ring with entry point 1); calls: AddWarrior, SpawnWarrior(i in -1..n+1, off in {0,M-1,M,2M+3}), RunCycle, Run, Reset; query battery (GetWarrior -1..n+1, GetMem incl. >= M, Alive/Queue/NextPC/Length, counters) twice in every state; reset-vs-fresh differential with tails of length <=%d; depth cap %d", M, P, Cycles, e.MaxW, resetDepth, e.MaxDepth)
	rep.Sample("add(0) add(2) spawn(0,0) spawn(1,11) cycle reset spawn(1,3) run")
}

// Replay re-executes one history with all checks.
func (e *Engine) Replay(wit string) error {
	if strings.HasPrefix(wit, "cfg(") {
		var m, p, c uint64
		if _, err := fmt.Sscanf(wit, "cfg(%d,%d,%d)", &m, &p, &c); err != nil {
			return err
		}
		SetConfig(m, p, c)
		wit = wit[strings.Index(wit, ")")+1:]
	}
	ops, err := ParseOps(wit)
	if err != nil {
		return err
	}
	for i := 1; i <= len(ops); i++ {
		im, md, ok := e.build(ops[:i], true)
		if !ok {
			return nil
		}
		e.compare(ops[:i], im, md)
	}
	// the reset clause of the state before a trailing reset-differential tail is
	// covered by replaying the whole history on both sides
	if i := lastReset(ops); i >= 0 {
		_, md, ok := e.build(ops[:i], false)
		if ok {
			e.resetClause(ops[:i], md, 2)
		}
	}
	return nil
}

func lastReset(ops []Op) int {
	for i := len(ops) - 1; i >= 0; i-- {
		if ops[i].Kind == "reset" {
			return i
		}
	}
	return -1
}

// Package sched is the controlled scheduler and the stateless depth-first
// explorer. A thread is a real goroutine that runs only while it holds the
// baton, so exactly one thread runs at any time and every interleaving is
// decided by the explorer's choice list. Channel operations, go statements,
// map-iteration orders and environment answers are choice points; ticks are a
// deterministic step counter (and scheduling points in fine mode).
package sched

import (
	"fmt"
	"runtime"
	"strings"
)

type Kind uint8

const (
	PSched Kind = iota // which thread runs next
	PPerm              // map iteration order
	PEnv               // environment answer (reader chunking, ...)
)

// Point is one recorded choice point of an execution.
type Point struct {
	Kind    Kind
	N       int  // number of alternatives
	Chosen  int  // alternative taken
	Preempt bool // PSched: an alternative other than 0 preempts a runnable thread
}

// Cost of taking alternative alt at this point.
//
// Every departure from the default answer costs one deviation: a preemption
// of a runnable thread, a thread other than the lowest runnable id when the
// running thread blocks, a map order other than the sorted one, an
// environment answer other than the default. (Leaving the choice among
// several runnable threads at a blocking point free, as preemption bounding
// does, is exponential in the number of rendezvous of the token streams here.)
func (p Point) Cost(alt int) int {
	if alt == 0 {
		return 0
	}
	return 1
}

// Outcome describes how one execution ended.
type Outcome struct {
	Points         []Point
	Ticks          int64
	MainDone       bool
	Leaked         []string // threads blocked forever after the main thread returned
	Deadlock       bool     // main thread blocked and nobody can run
	BudgetExceeded bool     // step budget exhausted: non-termination verdict
	ThreadPanic    string   // a panic inside a spawned thread
	Diverged       string   // the replayed prefix did not fit (hard error)
	Threads        int
}

func (o *Outcome) Choices() []int {
	c := make([]int, len(o.Points))
	for i, p := range o.Points {
		c[i] = p.Chosen
	}
	return c
}

const (
	stRunnable = iota
	stSend
	stRecv
	stDone
)

type thread struct {
	id    int
	wake  chan struct{}
	st    int
	ch    any
	val   any
	ok    bool
	where string
	exit  chan struct{}
}

type chanState struct {
	buf    []any
	closed bool
}

type killSentinel struct{}

// Sched runs one execution.
type Sched struct {
	Fine   bool  // every tick is a scheduling point
	Budget int64 // step budget (ticks)
	Prefix []int

	threads []*thread
	cur     *thread
	chans   map[any]*chanState
	out     *Outcome
	done    chan struct{}
	ended   bool
	killing bool
}

func (s *Sched) choose(kind Kind, n int, preempt bool) int {
	idx := len(s.out.Points)
	c := 0
	if idx < len(s.Prefix) {
		c = s.Prefix[idx]
		if c < 0 || c >= n {
			s.out.Diverged = fmt.Sprintf("choice %d at point %d out of range (%d alternatives)", c, idx, n)
			s.end()
		}
	}
	s.out.Points = append(s.out.Points, Point{kind, n, c, preempt})
	return c
}

// end finishes the execution from the running thread: the controller is
// signalled and the thread parks until it is killed.
func (s *Sched) end() {
	me := s.cur
	if !s.ended {
		s.ended = true
		close(s.done)
	}
	if me != nil && me.st != stDone {
		<-me.wake
		panic(killSentinel{})
	}
}

func (s *Sched) switchTo(next *thread) {
	me := s.cur
	if next == me {
		return
	}
	s.cur = next
	next.wake <- struct{}{}
	if me.st == stDone {
		return
	}
	<-me.wake
	if s.killing {
		panic(killSentinel{})
	}
}

func (s *Sched) runnable(except *thread) []*thread {
	var out []*thread
	for _, t := range s.threads {
		if t != except && t.st == stRunnable {
			out = append(out, t)
		}
	}
	return out
}

// schedPoint lets the explorer preempt the running thread.
func (s *Sched) schedPoint() {
	me := s.cur
	others := s.runnable(me)
	if len(others) == 0 {
		return
	}
	c := s.choose(PSched, 1+len(others), true)
	if c == 0 {
		return
	}
	s.switchTo(others[c-1])
}

// yieldBlocked is called by a thread that has just blocked or finished.
func (s *Sched) yieldBlocked() {
	me := s.cur
	en := s.runnable(me)
	if len(en) == 0 {
		// nobody can run: normal end, leak or deadlock
		main := s.threads[0]
		for _, t := range s.threads {
			if t.st == stSend || t.st == stRecv {
				op := "send"
				if t.st == stRecv {
					op = "receive"
				}
				if main.st == stDone {
					s.out.Leaked = append(s.out.Leaked, fmt.Sprintf("thread %d blocked forever in %s at %s", t.id, op, t.where))
				} else {
					s.out.Deadlock = true
				}
			}
		}
		s.end()
		return
	}
	c := 0
	if len(en) > 1 {
		c = s.choose(PSched, len(en), false)
	}
	s.switchTo(en[c])
}

func caller() string {
	pcs := make([]uintptr, 12)
	n := runtime.Callers(3, pcs)
	fr := runtime.CallersFrames(pcs[:n])
	for {
		f, more := fr.Next()
		if strings.Contains(f.Function, "gmars.") && !strings.Contains(f.Function, "gmars.verif") {
			name := f.Function[strings.LastIndex(f.Function, "/")+1:]
			return fmt.Sprintf("%s (%s:%d)", name, f.File[strings.LastIndex(f.File, "/")+1:], f.Line)
		}
		if !more {
			return "?"
		}
	}
}

// Tick is the step counter (and a scheduling point in fine mode).
func (s *Sched) Tick() {
	s.out.Ticks++
	if s.Budget > 0 && s.out.Ticks > s.Budget {
		s.out.BudgetExceeded = true
		s.end()
	}
	if s.Fine {
		s.schedPoint()
	}
}

// Go starts a new thread.
func (s *Sched) Go(f func()) {
	t := &thread{id: len(s.threads), wake: make(chan struct{}), exit: make(chan struct{})}
	s.threads = append(s.threads, t)
	s.out.Threads = len(s.threads)
	go s.threadMain(t, f)
	s.schedPoint()
}

func (s *Sched) threadMain(t *thread, f func()) {
	defer close(t.exit)
	<-t.wake
	if s.killing {
		return
	}
	defer func() {
		if r := recover(); r != nil {
			if _, ok := r.(killSentinel); ok {
				return
			}
			// a genuine panic inside a thread would take the process down
			if s.out.ThreadPanic == "" {
				s.out.ThreadPanic = fmt.Sprintf("thread %d: %v", t.id, r)
			}
			t.st = stDone
			s.ended = true
			select {
			case <-s.done:
			default:
				close(s.done)
			}
		}
	}()
	f()
	t.st = stDone
	if t.id == 0 {
		s.out.MainDone = true
	}
	s.yieldBlocked()
}

func (s *Sched) chanOf(ch any) *chanState {
	c, ok := s.chans[ch]
	if !ok {
		c = &chanState{}
		s.chans[ch] = c
	}
	return c
}

// Send models ch <- v.
func (s *Sched) Send(ch any, capacity int, v any) {
	s.schedPoint()
	c := s.chanOf(ch)
	if c.closed {
		panic("send on closed channel")
	}
	// a waiting receiver takes the value directly
	for _, t := range s.threads {
		if t.st == stRecv && t.ch == ch {
			t.val, t.ok, t.st, t.ch = v, true, stRunnable, nil
			return
		}
	}
	if len(c.buf) < capacity {
		c.buf = append(c.buf, v)
		return
	}
	me := s.cur
	me.st, me.ch, me.val, me.where = stSend, ch, v, caller()
	s.yieldBlocked()
	// woken: either a receiver took the value or the channel was closed
	if me.st == stSend {
		panic("scheduler: sender woken while still blocked")
	}
	if !me.ok {
		panic("send on closed channel")
	}
}

// Recv models <-ch.
func (s *Sched) Recv(ch any, capacity int) (any, bool) {
	s.schedPoint()
	c := s.chanOf(ch)
	if len(c.buf) > 0 {
		v := c.buf[0]
		c.buf = c.buf[1:]
		// a blocked sender moves into the freed slot
		for _, t := range s.threads {
			if t.st == stSend && t.ch == ch {
				c.buf = append(c.buf, t.val)
				t.st, t.ch, t.ok = stRunnable, nil, true
				break
			}
		}
		return v, true
	}
	for _, t := range s.threads {
		if t.st == stSend && t.ch == ch {
			v := t.val
			t.st, t.ch, t.ok = stRunnable, nil, true
			return v, true
		}
	}
	if c.closed {
		return nil, false
	}
	me := s.cur
	me.st, me.ch, me.where = stRecv, ch, caller()
	s.yieldBlocked()
	return me.val, me.ok
}

// Close models close(ch).
func (s *Sched) Close(ch any) {
	s.schedPoint()
	c := s.chanOf(ch)
	if c.closed {
		panic("close of closed channel")
	}
	c.closed = true
	for _, t := range s.threads {
		if t.ch == ch && (t.st == stRecv || t.st == stSend) {
			t.val, t.ok, t.st, t.ch = nil, false, stRunnable, nil
		}
	}
}

// permutations offered at a map-iteration site with n keys: all of them for
// n <= 4, otherwise the rotations of the sorted and of the reversed order and
// the adjacent transpositions.
func permAlternatives(n int) [][]int {
	id := make([]int, n)
	for i := range id {
		id[i] = i
	}
	if n <= 1 {
		return [][]int{id}
	}
	var out [][]int
	if n <= 4 {
		var rec func(cur []int, used []bool)
		rec = func(cur []int, used []bool) {
			if len(cur) == n {
				out = append(out, append([]int{}, cur...))
				return
			}
			for i := 0; i < n; i++ {
				if !used[i] {
					used[i] = true
					rec(append(cur, i), used)
					used[i] = false
				}
			}
		}
		rec(nil, make([]bool, n))
		return out // lexicographic: the identity first
	}
	seen := map[string]bool{}
	add := func(p []int) {
		k := fmt.Sprint(p)
		if !seen[k] {
			seen[k] = true
			out = append(out, append([]int{}, p...))
		}
	}
	add(id)
	rev := make([]int, n)
	for i := range rev {
		rev[i] = n - 1 - i
	}
	for r := 0; r < n; r++ {
		p := make([]int, n)
		q := make([]int, n)
		for i := 0; i < n; i++ {
			p[i] = id[(i+r)%n]
			q[i] = rev[(i+r)%n]
		}
		add(p)
		add(q)
	}
	for i := 0; i+1 < n; i++ {
		p := append([]int{}, id...)
		p[i], p[i+1] = p[i+1], p[i]
		add(p)
	}
	return out
}

// Perm is the map-order choice point.
func (s *Sched) Perm(n int) []int {
	alts := permAlternatives(n)
	if len(alts) == 1 {
		return alts[0]
	}
	return alts[s.choose(PPerm, len(alts), false)]
}

// Env is an environment choice point with n alternatives.
func (s *Sched) Env(n int) int {
	if n <= 1 {
		return 0
	}
	return s.choose(PEnv, n, false)
}

// Run executes main as thread 0 under the scheduler and returns the outcome.
func (s *Sched) Run(main func()) *Outcome {
	s.out = &Outcome{}
	s.chans = map[any]*chanState{}
	s.done = make(chan struct{})
	t0 := &thread{id: 0, wake: make(chan struct{}), exit: make(chan struct{})}
	s.threads = []*thread{t0}
	s.out.Threads = 1
	s.cur = t0
	go s.threadMain(t0, main)
	t0.wake <- struct{}{}
	<-s.done
	// clean up: every thread that has not finished is parked on its wake
	// channel; wake it with the kill flag so that its goroutine unwinds
	s.killing = true
	for _, t := range s.threads {
		select {
		case <-t.exit:
		default:
			select {
			case t.wake <- struct{}{}:
			case <-t.exit:
			}
			<-t.exit
		}
	}
	return s.out
}

package sched

import (
	"encoding/json"
	"fmt"
	"strconv"
	"strings"
)

// Choices is a choice list that is written compactly in witnesses:
// "<length>:<index>=<alternative>,..." (all other entries are 0).
type Choices []int

func (c Choices) MarshalJSON() ([]byte, error) {
	var nz []string
	for i, v := range c {
		if v != 0 {
			nz = append(nz, fmt.Sprintf("%d=%d", i, v))
		}
	}
	return json.Marshal(fmt.Sprintf("%d:%s", len(c), strings.Join(nz, ",")))
}

func (c *Choices) UnmarshalJSON(b []byte) error {
	if len(b) > 0 && b[0] == '[' {
		var raw []int
		if err := json.Unmarshal(b, &raw); err != nil {
			return err
		}
		*c = raw
		return nil
	}
	var s string
	if err := json.Unmarshal(b, &s); err != nil {
		return err
	}
	parts := strings.SplitN(s, ":", 2)
	n, err := strconv.Atoi(parts[0])
	if err != nil {
		return err
	}
	out := make([]int, n)
	if len(parts) == 2 && parts[1] != "" {
		for _, kv := range strings.Split(parts[1], ",") {
			var i, v int
			if _, err := fmt.Sscanf(kv, "%d=%d", &i, &v); err != nil || i < 0 || i >= n {
				return fmt.Errorf("bad choice entry %q", kv)
			}
			out[i] = v
		}
	}
	*c = out
	return nil
}

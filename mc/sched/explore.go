package sched

import "time"

// Explorer is the stateless depth-first search of the brief: run a prefix,
// take alternative 0 afterwards, then branch on every later point whose
// accumulated cost (preemptions + deviating map orders + deviating
// environment answers) stays within the bound.
type Explorer struct {
	Bound    int
	Fine     bool
	Budget   int64
	MaxExecs int64
	Deadline time.Time
	// OnlyPerm restricts branching to map-order choice points (the schedule
	// stays the default one).
	OnlyPerm bool

	// Exec runs one execution with the given scheduler (it calls s.Run) and
	// returns whatever the check needs.
	Exec func(s *Sched) *Outcome
	// Check is called once per execution.
	Check func(o *Outcome)

	Execs   int64
	Points  int64
	Capped  bool
	MaxLen  int
	Diverge string
}

func (e *Explorer) one(prefix []int) *Outcome {
	s := &Sched{Fine: e.Fine, Budget: e.Budget, Prefix: prefix}
	o := e.Exec(s)
	e.Execs++
	e.Points += int64(len(o.Points))
	if len(o.Points) > e.MaxLen {
		e.MaxLen = len(o.Points)
	}
	if o.Diverged != "" && e.Diverge == "" {
		e.Diverge = o.Diverged
	}
	e.Check(o)
	return o
}

// Explore runs the search from the empty prefix.
func (e *Explorer) Explore() {
	e.explore(nil)
}

func (e *Explorer) explore(prefix []int) {
	if e.Capped {
		return
	}
	if (e.MaxExecs > 0 && e.Execs >= e.MaxExecs) || (!e.Deadline.IsZero() && time.Now().After(e.Deadline)) {
		e.Capped = true
		return
	}
	o := e.one(prefix)
	if o.Diverged != "" {
		return
	}
	cost := 0
	for i := 0; i < len(prefix) && i < len(o.Points); i++ {
		cost += o.Points[i].Cost(o.Points[i].Chosen)
	}
	choices := o.Choices()
	for i := len(prefix); i < len(o.Points); i++ {
		p := o.Points[i]
		if e.OnlyPerm && p.Kind != PPerm {
			continue
		}
		for alt := 1; alt < p.N; alt++ {
			if cost+p.Cost(alt) > e.Bound {
				continue
			}
			np := append(append([]int{}, choices[:i]...), alt)
			e.explore(np)
			if e.Capped {
				return
			}
		}
		// points after the prefix were taken with alternative 0: cost unchanged
	}
}

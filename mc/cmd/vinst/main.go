// vinst instruments the non-test sources of package gmars for the explorer
// and writes a `go build -overlay` file set: scheduling/step-count ticks at
// every function, function literal and loop body; channel operations and go
// statements routed through hooks; map iteration routed through an ordered,
// explorer-permuted key list. It only adds calls; the tree is not touched.
package main

import (
	"encoding/json"
	"flag"
	"fmt"
	"go/ast"
	"go/importer"
	"go/parser"
	"go/token"
	"go/types"
	"os"
	"path/filepath"
	"sort"
	"strings"
)

type edit struct {
	from, to int // byte offsets; from == to is an insertion
	text     string
	seq      int
}

func main() {
	repo := flag.String("repo", "/repo", "repository root")
	out := flag.String("out", "", "output directory")
	flag.Parse()
	if *out == "" {
		fmt.Fprintln(os.Stderr, "vinst: -out required")
		os.Exit(2)
	}
	os.MkdirAll(*out, 0o755)
	fset := token.NewFileSet()
	ents, err := os.ReadDir(*repo)
	if err != nil {
		fmt.Fprintln(os.Stderr, err)
		os.Exit(2)
	}
	var files []*ast.File
	var names []string
	srcs := map[string][]byte{}
	for _, e := range ents {
		n := e.Name()
		if e.IsDir() || !strings.HasSuffix(n, ".go") || strings.HasSuffix(n, "_test.go") {
			continue
		}
		p := filepath.Join(*repo, n)
		b, err := os.ReadFile(p)
		if err != nil {
			fmt.Fprintln(os.Stderr, err)
			os.Exit(2)
		}
		f, err := parser.ParseFile(fset, p, b, parser.ParseComments)
		if err != nil {
			fmt.Fprintln(os.Stderr, "vinst: parse:", err)
			os.Exit(2)
		}
		if f.Name.Name != "gmars" {
			continue
		}
		files = append(files, f)
		names = append(names, p)
		srcs[p] = b
	}
	// type information (only needed to recognise map iteration)
	info := &types.Info{Types: map[ast.Expr]types.TypeAndValue{}}
	conf := types.Config{Importer: importer.ForCompiler(fset, "source", nil), Error: func(error) {}}
	_, terr := conf.Check("github.com/bobertlo/gmars", fset, files, info)
	if terr != nil {
		fmt.Println("NOTE: instrumentation: partial (type check of the working tree failed: map iteration sites are left uninstrumented)")
	}
	overlay := map[string]string{}
	stats := map[string]int{}
	for i, f := range files {
		src := srcs[names[i]]
		var edits []edit
		seq := 0
		add := func(from, to token.Pos, text string) {
			seq++
			edits = append(edits, edit{fset.Position(from).Offset, fset.Position(to).Offset, text, seq})
		}
		text := func(n ast.Node) string {
			return string(src[fset.Position(n.Pos()).Offset:fset.Position(n.End()).Offset])
		}
		tick := func(b *ast.BlockStmt) {
			if b != nil {
				add(b.Lbrace+1, b.Lbrace+1, " verifTick(); ")
				stats["ticks"]++
			}
		}
		commaOK := map[*ast.UnaryExpr]bool{}
		ast.Inspect(f, func(n ast.Node) bool {
			switch x := n.(type) {
			case *ast.AssignStmt:
				if len(x.Lhs) == 2 && len(x.Rhs) == 1 {
					if u, ok := x.Rhs[0].(*ast.UnaryExpr); ok && u.Op == token.ARROW {
						commaOK[u] = true
					}
				}
			case *ast.ValueSpec:
				if len(x.Names) == 2 && len(x.Values) == 1 {
					if u, ok := x.Values[0].(*ast.UnaryExpr); ok && u.Op == token.ARROW {
						commaOK[u] = true
					}
				}
			}
			return true
		})
		ast.Inspect(f, func(n ast.Node) bool {
			switch x := n.(type) {
			case *ast.FuncDecl:
				tick(x.Body)
			case *ast.FuncLit:
				tick(x.Body)
			case *ast.ForStmt:
				tick(x.Body)
			case *ast.SelectStmt:
				fmt.Printf("NOTE: instrumentation: partial (select statement at %s is not modelled)\n", fset.Position(x.Pos()))
			case *ast.RangeStmt:
				tick(x.Body)
				tv, ok := info.Types[x.X]
				if !ok || tv.Type == nil {
					break
				}
				switch t := tv.Type.Underlying().(type) {
				case *types.Chan:
					fmt.Printf("NOTE: instrumentation: partial (range over a channel at %s is not modelled)\n", fset.Position(x.Pos()))
				case *types.Map:
					b, isBasic := t.Key().Underlying().(*types.Basic)
					if !isBasic || b.Info()&types.IsOrdered == 0 {
						fmt.Printf("NOTE: map iteration at %s has an unordered key type and is left uninstrumented\n", fset.Position(x.Pos()))
						break
					}
					mtext := text(x.X)
					if _, simple := x.X.(*ast.Ident); !simple {
						if _, sel := x.X.(*ast.SelectorExpr); !sel {
							fmt.Printf("NOTE: map iteration at %s ranges over a complex expression and is left uninstrumented\n", fset.Position(x.Pos()))
							break
						}
					}
					// a body that writes to the ranged map keeps Go's semantics
					writes := false
					ast.Inspect(x.Body, func(m ast.Node) bool {
						switch y := m.(type) {
						case *ast.AssignStmt:
							for _, l := range y.Lhs {
								if ix, ok := l.(*ast.IndexExpr); ok && text(ix.X) == mtext {
									writes = true
								}
							}
						case *ast.CallExpr:
							if id, ok := y.Fun.(*ast.Ident); ok && id.Name == "delete" && len(y.Args) > 0 && text(y.Args[0]) == mtext {
								writes = true
							}
						}
						return true
					})
					if writes {
						fmt.Printf("NOTE: map iteration at %s modifies the map it ranges over and is left uninstrumented\n", fset.Position(x.Pos()))
						break
					}
					key, val := "", ""
					if x.Key != nil {
						key = text(x.Key)
					}
					if x.Value != nil {
						val = text(x.Value)
					}
					kname := key
					pre := ""
					if key == "" || key == "_" || x.Tok != token.DEFINE {
						kname = "verifK"
						if key != "" && key != "_" {
							pre += key + " = verifK; "
						}
					}
					if val != "" && val != "_" {
						if x.Tok == token.DEFINE {
							pre += val + " := " + mtext + "[" + kname + "]; "
						} else {
							pre += val + " = " + mtext + "[" + kname + "]; "
						}
					}
					add(x.For, x.Body.Lbrace+1, "for _, "+kname+" := range verifKeys("+mtext+") { "+pre)
					stats["map-ranges"]++
				}
			case *ast.SendStmt:
				add(x.Pos(), x.Pos(), "verifSend(")
				add(x.Chan.End(), x.Value.Pos(), ", ")
				add(x.End(), x.End(), ")")
				stats["sends"]++
			case *ast.UnaryExpr:
				if x.Op == token.ARROW {
					fn := "verifRecv("
					if commaOK[x] {
						fn = "verifRecv2("
					}
					add(x.OpPos, x.OpPos+2, fn)
					add(x.End(), x.End(), ")")
					stats["receives"]++
				}
			case *ast.CallExpr:
				if id, ok := x.Fun.(*ast.Ident); ok && id.Name == "close" && len(x.Args) == 1 {
					if tv, ok := info.Types[x.Args[0]]; !ok || tv.Type == nil || isChan(tv.Type) {
						add(id.Pos(), id.End(), "verifClose")
						stats["closes"]++
					}
				}
			case *ast.GoStmt:
				if len(x.Call.Args) == 0 {
					// go recv.method() / go f(): the function value is evaluated now
					add(x.Go, x.Call.Pos(), "verifGo(")
					add(x.Call.Lparen, x.Call.Rparen+1, ")")
				} else {
					add(x.Go, x.Call.Pos(), "verifGo(func() { ")
					add(x.End(), x.End(), " })")
					fmt.Printf("NOTE: go statement with arguments at %s: arguments are evaluated when the new thread first runs\n", fset.Position(x.Pos()))
				}
				stats["go-statements"]++
			}
			return true
		})
		sort.SliceStable(edits, func(a, b int) bool {
			if edits[a].from != edits[b].from {
				return edits[a].from > edits[b].from
			}
			// at one offset: closers (inserted at an End) before openers, in reverse creation order
			return edits[a].seq > edits[b].seq
		})
		res := append([]byte{}, src...)
		for _, e := range edits {
			res = append(res[:e.from:e.from], append([]byte(e.text), res[e.to:]...)...)
		}
		op := filepath.Join(*out, filepath.Base(names[i]))
		if err := os.WriteFile(op, res, 0o644); err != nil {
			fmt.Fprintln(os.Stderr, err)
			os.Exit(2)
		}
		overlay[names[i]] = op
	}
	shim, err := os.ReadFile("shim/shim.go.txt")
	if err != nil {
		fmt.Fprintln(os.Stderr, "vinst: run from /verif/mc:", err)
		os.Exit(2)
	}
	sp := filepath.Join(*out, "zz_verif_shim.go")
	os.WriteFile(sp, shim, 0o644)
	overlay[filepath.Join(*repo, "zz_verif_shim.go")] = sp
	b, _ := json.MarshalIndent(map[string]any{"Replace": overlay}, "", " ")
	os.WriteFile(filepath.Join(*out, "overlay.json"), b, 0o644)
	var ks []string
	for k := range stats {
		ks = append(ks, k)
	}
	sort.Strings(ks)
	var parts []string
	for _, k := range ks {
		parts = append(parts, fmt.Sprintf("%s=%d", k, stats[k]))
	}
	fmt.Println("NOTE: instrumented " + strings.Join(parts, " "))
}

func isChan(t types.Type) bool {
	_, ok := t.Underlying().(*types.Chan)
	return ok
}

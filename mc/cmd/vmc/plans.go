package main

var baseAssumptions = []string{
	"the Go toolchain and the harness itself (reference models in /verif/mc/ref are the oracle; they share no code with gmars)",
	"behaviour above the stated bounds rests on the uniformity of the code in core size, process limit and cycle count (DESIGN.md section 7)",
}

func plans() map[string]Plan {
	p := map[string]Plan{}
	p["C01"] = Plan{Prop: "C01",
		Quick:    []Job{{Name: "stepspace", Engine: "e1"}},
		Thorough: []Job{{Name: "stepspace", Engine: "e1"}},
		QuickCap: 240, ThoroughCap: 3000,
		Assumptions: baseAssumptions}
	p["C11"] = Plan{Prop: "C11",
		Quick:    []Job{{Name: "stepspace", Engine: "e1"}},
		Thorough: []Job{{Name: "stepspace", Engine: "e1"}},
		QuickCap: 240, ThoroughCap: 3000,
		Assumptions: baseAssumptions}
	p["C02"] = Plan{Prop: "C02",
		Quick:    []Job{{Name: "battles", Engine: "e2"}},
		Thorough: []Job{{Name: "battles", Engine: "e2"}},
		QuickCap: 240, ThoroughCap: 3000,
		Assumptions: baseAssumptions}
	p["C12"] = Plan{Prop: "C12",
		Quick:    []Job{{Name: "battles", Engine: "e2"}},
		Thorough: []Job{{Name: "battles", Engine: "e2"}},
		QuickCap: 240, ThoroughCap: 3000,
		Assumptions: baseAssumptions}
	p["C04"] = Plan{Prop: "C04",
		Quick:    []Job{{Name: "stepspace", Engine: "e1"}, {Name: "battles", Engine: "e2"}},
		Thorough: []Job{{Name: "stepspace", Engine: "e1"}, {Name: "battles", Engine: "e2"}},
		QuickCap: 240, ThoroughCap: 3000,
		Assumptions: baseAssumptions}
	p["C15"] = Plan{Prop: "C15",
		Quick:    []Job{{Name: "stepspace", Engine: "e1"}, {Name: "battles", Engine: "e2"}},
		Thorough: []Job{{Name: "stepspace", Engine: "e1"}, {Name: "battles", Engine: "e2"}},
		QuickCap: 240, ThoroughCap: 3000,
		Assumptions: baseAssumptions}
	p["C07"] = Plan{Prop: "C07",
		Quick:       []Job{{Name: "expressions", Engine: "e4"}},
		Thorough:    []Job{{Name: "expressions", Engine: "e4"}},
		QuickCap:    300, ThoroughCap: 3000,
		Assumptions: append([]string{"the expected value is computed from the expression tree with math/big; the replay path re-derives it from the source text with an independent token evaluator (ref/expr.go)"}, baseAssumptions...)}
	return p
}

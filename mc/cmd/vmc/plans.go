package main

var baseAssumptions = []string{
	"the Go toolchain and the harness itself (reference models in /verif/mc/ref are the oracle; they share no code with gmars)",
	"behaviour above the stated bounds rests on the uniformity of the code in core size, process limit and cycle count (DESIGN.md section 7)",
}

func plans() map[string]Plan {
	p := map[string]Plan{}
	p["C01"] = Plan{Prop: "C01",
		Quick:    []Job{{Name: "stepspace", Engine: "e1"}},
		Thorough: []Job{{Name: "stepspace", Engine: "e1"}},
		QuickCap: 480, ThoroughCap: 5400,
		Assumptions: baseAssumptions}
	p["C11"] = Plan{Prop: "C11",
		Quick:    []Job{{Name: "stepspace", Engine: "e1"}},
		Thorough: []Job{{Name: "stepspace", Engine: "e1"}},
		QuickCap: 480, ThoroughCap: 5400,
		Assumptions: baseAssumptions}
	p["C02"] = Plan{Prop: "C02",
		Quick:    []Job{{Name: "battles", Engine: "e2"}},
		Thorough: []Job{{Name: "battles", Engine: "e2"}},
		QuickCap: 240, ThoroughCap: 3000,
		Assumptions: baseAssumptions}
	p["C12"] = Plan{Prop: "C12",
		Quick:    []Job{{Name: "battles", Engine: "e2"}},
		Thorough: []Job{{Name: "battles", Engine: "e2"}},
		QuickCap: 240, ThoroughCap: 3000,
		Assumptions: baseAssumptions}
	p["C04"] = Plan{Prop: "C04",
		Quick:    []Job{{Name: "stepspace", Engine: "e1"}, {Name: "battles", Engine: "e2"}},
		Thorough: []Job{{Name: "stepspace", Engine: "e1"}, {Name: "battles", Engine: "e2"}},
		QuickCap: 480, ThoroughCap: 5400,
		Assumptions: baseAssumptions}
	p["C15"] = Plan{Prop: "C15",
		Quick:    []Job{{Name: "stepspace", Engine: "e1"}, {Name: "battles", Engine: "e2"}},
		Thorough: []Job{{Name: "stepspace", Engine: "e1"}, {Name: "battles", Engine: "e2"}},
		QuickCap: 480, ThoroughCap: 5400,
		Assumptions: baseAssumptions}
	p["C07"] = Plan{Prop: "C07",
		Quick:    []Job{{Name: "expressions", Engine: "e4"}},
		Thorough: []Job{{Name: "expressions", Engine: "e4"}},
		QuickCap: 300, ThoroughCap: 3000,
		Assumptions: append([]string{"the expected value is computed from the expression tree with math/big; the replay path re-derives it from the source text with an independent token evaluator (ref/expr.go)"}, baseAssumptions...)}
	p["C03"] = Plan{Prop: "C03",
		Quick:    []Job{{Name: "programs", Engine: "e4"}},
		Thorough: []Job{{Name: "programs", Engine: "e4"}},
		QuickCap: 300, ThoroughCap: 3000,
		Assumptions: append([]string{"meaning(p) is computed by ref/asm.go from the abstract program (token-level EQU substitution, relative labels, ICWS'94 draft / ICWS'88 default tables, README lone-operand rule) without calling gmars"}, baseAssumptions...)}
	p["C08"] = Plan{Prop: "C08",
		Quick:    []Job{{Name: "for-structures", Engine: "e4"}},
		Thorough: []Job{{Name: "for-structures", Engine: "e4"}},
		QuickCap: 300, ThoroughCap: 3000,
		Assumptions: append([]string{"unroll(p) and its meaning are computed by the harness (engines/e4/c08.go, ref/asm.go) without calling gmars"}, baseAssumptions...)}
	p["C06"] = Plan{Prop: "C06",
		Quick:    []Job{{Name: "accepted-outputs", Engine: "e4"}, {Name: "token-soup-and-mutations", Engine: "e6", Inst: true, Args: []string{"-job", "inst"}}},
		Thorough: []Job{{Name: "accepted-outputs", Engine: "e4"}, {Name: "token-soup-and-mutations", Engine: "e6", Inst: true, Args: []string{"-job", "inst"}}},
		QuickCap: 300, ThoroughCap: 3000,
		Assumptions: append([]string{"the ICWS'88 legality table is ref.Legal88 (written from the standard; SLT with immediate B allowed as the suite documents)"}, baseAssumptions...)}
	for _, id := range []string{"C09", "C10"} {
		p[id] = Plan{Prop: id,
			Quick:    []Job{{Name: "load-files", Engine: "e5"}},
			Thorough: []Job{{Name: "load-files", Engine: "e5"}},
			QuickCap: 300, ThoroughCap: 3000,
			Assumptions: append([]string{"canonical printer, line classifier and listing reader are ref/load.go (independent of gmars)"}, baseAssumptions...)}
	}
	p["C16"] = Plan{Prop: "C16",
		Quick:    []Job{{Name: "load-files", Engine: "e5"}, {Name: "cli-listing", Engine: "e8", CLI: true, Args: []string{"-job", "listing"}}},
		Thorough: []Job{{Name: "load-files", Engine: "e5"}, {Name: "cli-listing", Engine: "e8", CLI: true, Args: []string{"-job", "listing"}}},
		QuickCap: 300, ThoroughCap: 3000,
		Assumptions: append([]string{"canonical printer, line classifier and listing reader are ref/load.go (independent of gmars)", "the -A path is driven through the freshly built cmd/gmars on generated source files whose meaning is known by construction"}, baseAssumptions...)}
	p["C13"] = Plan{Prop: "C13",
		Quick:    []Job{{Name: "api-bfs", Engine: "e3", Shards: 9}},
		Thorough: []Job{{Name: "api-bfs", Engine: "e3"}},
		QuickCap: 300, ThoroughCap: 3000,
		Assumptions: append([]string{"the state key of the search is the full observable state (every query of the battery) plus the model's bookkeeping; private fields that never become observable are not distinguished", "R-api (engines/e3) is the reference state machine; Queue/NextPC between Reset and respawn, error texts and RunCycle's integer on an inactive battle are unspecified and not compared"}, baseAssumptions...)}
	p["C05"] = Plan{Prop: "C05",
		Quick:    []Job{{Name: "scheduler-controlled", Engine: "e6", Inst: true, Args: []string{"-job", "inst"}}, {Name: "free-running", Engine: "e6", Args: []string{"-job", "free"}}},
		Thorough: []Job{{Name: "scheduler-controlled", Engine: "e6", Inst: true, Args: []string{"-job", "inst"}}, {Name: "free-running", Engine: "e6", Args: []string{"-job", "free"}}},
		QuickCap: 300, ThoroughCap: 3000,
		Assumptions: append([]string{"the instrumentation (ticks, channel/go hooks, ordered map iteration) only adds calls and preserves behaviour; checked on every run by executing the repository's own tests against the instrumented build", "work inside go/types.Eval and the standard library is invisible to the step counter (covered by the free-running pass with its watchdog)", "the free-running pass uses a 2 s grace period for goroutines to finish and a 30-60 s watchdog, both orders of magnitude above the microseconds a call takes"}, baseAssumptions...)}
	p["C14"] = Plan{Prop: "C14",
		Quick: []Job{{Name: "interleavings-and-map-orders", Engine: "e7", Inst: true, Args: []string{"-job", "inst"}, Shards: 46},
			{Name: "copy-isolation", Engine: "e7", Args: []string{"-job", "iso"}, Shards: 1},
			{Name: "race-detector-pass", Engine: "e7", Race: true, Args: []string{"-job", "race"}, Shards: 8}},
		Thorough: []Job{{Name: "interleavings-and-map-orders", Engine: "e7", Inst: true, Args: []string{"-job", "inst"}, Shards: 46},
			{Name: "copy-isolation", Engine: "e7", Args: []string{"-job", "iso"}, Shards: 1},
			{Name: "race-detector-pass", Engine: "e7", Race: true, Args: []string{"-job", "race"}, Shards: 8}},
		QuickCap: 300, ThoroughCap: 3000,
		Assumptions: append([]string{"the controlled scheduler explores sequentially consistent interleavings at the granularity of function entries, loop iterations and channel operations; races between plain memory accesses inside one such step and weak-memory effects are left to the free-running race-detector pass, which samples schedules", "the instrumentation preserves behaviour (checked by running the repository's tests against the instrumented build)"}, baseAssumptions...)}
	p["C17"] = Plan{Prop: "C17",
		Quick:    []Job{{Name: "cli", Engine: "e8", CLI: true}},
		Thorough: []Job{{Name: "cli", Engine: "e8", CLI: true}},
		QuickCap: 300, ThoroughCap: 3000,
		Assumptions: append([]string{"the expected tallies come from the reference MARS (ref/mars.go) on the by-construction meaning of the generated warrior files", "random placement is explored with math/rand replaced through a build overlay of cmd/gmars/main.go (only the import line changes); cmd/vmars (GUI) does not build in this image and is out of reach"}, baseAssumptions...)}
	return p
}

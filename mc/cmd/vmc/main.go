// vmc is the orchestrator: `vmc check <id> quick|thorough` rebuilds the harness
// against /repo's working tree, shards the enumeration over worker processes,
// merges their reports, confirms candidate violations by replay, matches them
// against the known-findings file, writes the evidence file and prints the
// verdict. `vmc replay <file>` re-executes one recorded violation.
package main

import (
	"bytes"
	"crypto/sha1"
	"encoding/json"
	"fmt"
	"os"
	"os/exec"
	"path/filepath"
	"runtime"
	"sort"
	"strconv"
	"strings"
	"sync"
	"time"
)

const (
	verifDir = "/verif"
	mcDir    = "/verif/mc"
)

type Violation struct {
	Prop    string `json:"prop"`
	Kind    string `json:"kind"`
	Witness string `json:"witness"`
	Detail  string `json:"detail"`
}

type Report struct {
	Engine      string           `json:"engine"`
	Shard       string           `json:"shard"`
	States      int64            `json:"states"`
	Transitions int64            `json:"transitions"`
	Traces      int64            `json:"traces"`
	Counters    map[string]int64 `json:"counters"`
	Samples     []string         `json:"samples"`
	Violations  []Violation      `json:"violations"`
	NViol       int64            `json:"nviol"`
	Exhaustive  bool             `json:"exhaustive"`
	Notes       []string         `json:"notes"`
	Bound       string           `json:"bound"`
}

// Job is one engine invocation of a plan.
type Job struct {
	Name    string
	Engine  string
	Args    []string // extra arguments (the orchestrator adds -props, -tier, -shard, -cap)
	Shards  int      // 0: all cores; 1: single process
	Inst    bool     // needs the instrumented (overlay) build
	Race    bool     // needs the -race build
	CLI     bool     // needs the freshly built cmd/gmars
	NoProps bool
}

type Plan struct {
	Prop        string
	Quick       []Job
	Thorough    []Job
	QuickCap    int // seconds per job
	ThoroughCap int
	Assumptions []string
}

type KnownFinding struct {
	Property string `json:"property"`
	Kind     string `json:"kind"`
	Witness  string `json:"witness"` // substring that must occur in the witness ("" = any witness of that kind)
	What     string `json:"what"`
}

type KnownFile struct {
	Findings []KnownFinding `json:"findings"`
	Fixed    []string       `json:"fixed"`
}

func goEnv() []string {
	env := os.Environ()
	env = append(env, "GOFLAGS=-mod=mod", "GOPROXY=off", "GOSUMDB=off", "GOTOOLCHAIN=local")
	return env
}

// workDir is removed on every way out (deferred calls do not run on os.Exit).
var workDir string

func fatal(format string, a ...any) {
	fmt.Fprintf(os.Stderr, "vmc: "+format+"\n", a...)
	if workDir != "" {
		os.RemoveAll(workDir)
	}
	os.Exit(2)
}

func main() {
	if len(os.Args) < 3 {
		fatal("usage: vmc check <id> quick|thorough | vmc replay <file> | vmc list")
	}
	switch os.Args[1] {
	case "check":
		tier := "quick"
		if len(os.Args) > 3 {
			tier = os.Args[3]
		}
		if t := os.Getenv("VERIF_TIER"); t != "" && len(os.Args) <= 3 {
			tier = t
		}
		os.Exit(check(os.Args[2], tier))
	case "replay":
		os.Exit(replay(os.Args[2]))
	default:
		fatal("unknown command %s", os.Args[1])
	}
}

type builds struct {
	dir   string
	plain string
	inst  string
	race  string
	notes []string
}

func buildHarness(dir string, needInst, needRace, needCLI bool) (*builds, error) {
	b := &builds{dir: dir}
	b.plain = filepath.Join(dir, "vh")
	if out, err := runCmd(mcDir, goEnv(), "go", "build", "-o", b.plain, "./cmd/vh"); err != nil {
		return nil, fmt.Errorf("building harness against /repo failed:\n%s", out)
	}
	if needInst {
		ov := filepath.Join(dir, "overlay")
		out, err := runCmd(mcDir, goEnv(), "go", "run", "./cmd/vinst", "-repo", "/repo", "-out", ov)
		if err != nil {
			return nil, fmt.Errorf("instrumenter failed:\n%s", out)
		}
		for _, l := range strings.Split(out, "\n") {
			if strings.HasPrefix(l, "NOTE:") {
				b.notes = append(b.notes, strings.TrimSpace(strings.TrimPrefix(l, "NOTE:")))
			}
		}
		// the instrumentation must preserve behaviour: the repository's own
		// tests run against the instrumented sources with no explorer attached
		tenv := append(os.Environ(), "GOPROXY=off", "GOSUMDB=off", "GOTOOLCHAIN=local", "GOFLAGS=")
		if out, err := runCmd("/repo", tenv, "timeout", "600", "go", "test", "-vet=off", "-count=1", "-overlay", filepath.Join(ov, "overlay.json"), "."); err != nil {
			b.notes = append(b.notes, "instrumentation: the repository's tests do not pass against the instrumented build (results of the instrumented engines are to be read with that in mind): "+trunc(out, 300))
		} else {
			b.notes = append(b.notes, "the repository's own tests pass against the instrumented build (explorer detached)")
		}
		b.inst = filepath.Join(dir, "vh-inst")
		if out, err := runCmd(mcDir, goEnv(), "go", "build", "-tags", "verifinst", "-overlay", filepath.Join(ov, "overlay.json"), "-o", b.inst, "./cmd/vh"); err != nil {
			return nil, fmt.Errorf("building instrumented harness failed:\n%s", out)
		}
	}
	if needCLI {
		tenv := append(os.Environ(), "GOPROXY=off", "GOSUMDB=off", "GOTOOLCHAIN=local", "GOFLAGS=")
		if out, err := runCmd("/repo", tenv, "go", "build", "-o", filepath.Join(dir, "gmars"), "./cmd/gmars"); err != nil {
			return nil, fmt.Errorf("building cmd/gmars failed:\n%s", out)
		}
		// the same command with math/rand replaced by a source whose answers the harness forces
		mainSrc, err := os.ReadFile("/repo/cmd/gmars/main.go")
		shimSrc, err2 := os.ReadFile(filepath.Join(mcDir, "shim", "verifrand.go.txt"))
		if err == nil && err2 == nil && strings.Count(string(mainSrc), "\"math/rand\"") == 1 {
			od := filepath.Join(dir, "cliov")
			os.MkdirAll(od, 0o755)
			os.WriteFile(filepath.Join(od, "main.go"), []byte(strings.Replace(string(mainSrc), "\"math/rand\"", "rand \"github.com/bobertlo/gmars/verifrand\"", 1)), 0o644)
			os.WriteFile(filepath.Join(od, "rand.go"), shimSrc, 0o644)
			ovj, _ := json.Marshal(map[string]any{"Replace": map[string]string{"/repo/cmd/gmars/main.go": filepath.Join(od, "main.go"), "/repo/verifrand/rand.go": filepath.Join(od, "rand.go")}})
			os.WriteFile(filepath.Join(od, "overlay.json"), ovj, 0o644)
			if out, err := runCmd("/repo", tenv, "go", "build", "-overlay", filepath.Join(od, "overlay.json"), "-o", filepath.Join(dir, "gmars-rand"), "./cmd/gmars"); err != nil {
				b.notes = append(b.notes, "the random-source overlay did not build: "+trunc(out, 300))
				os.Remove(filepath.Join(dir, "gmars-rand"))
			}
		} else {
			b.notes = append(b.notes, "cmd/gmars/main.go does not import math/rand exactly once: random placement cannot be forced")
		}
	}
	if needRace {
		b.race = filepath.Join(dir, "vh-race")
		if out, err := runCmd(mcDir, goEnv(), "go", "build", "-race", "-o", b.race, "./cmd/vh"); err != nil {
			return nil, fmt.Errorf("building race harness failed:\n%s", out)
		}
	}
	return b, nil
}

func runCmd(dir string, env []string, name string, args ...string) (string, error) {
	cmd := exec.Command(name, args...)
	cmd.Dir = dir
	cmd.Env = env
	var buf bytes.Buffer
	cmd.Stdout = &buf
	cmd.Stderr = &buf
	err := cmd.Run()
	return buf.String(), err
}

func workerEnv() []string {
	env := os.Environ()
	return append(env, "GOMAXPROCS=1", "GOGC=400", "GORACE=exitcode=0")
}

// runWorker runs one harness process and parses its report.
func runWorker(bin string, args []string, env []string) (*Report, error) {
	cmd := exec.Command(bin, args...)
	cmd.Env = env
	cmd.Dir = mcDir
	var out, errb bytes.Buffer
	cmd.Stdout = &out
	cmd.Stderr = &errb
	err := cmd.Run()
	var rep Report
	// the report is the last line of stdout
	lines := strings.Split(strings.TrimSpace(out.String()), "\n")
	last := lines[len(lines)-1]
	if jerr := json.Unmarshal([]byte(last), &rep); jerr != nil {
		tail := errb.String()
		if i := strings.Index(tail, "panic:"); i >= 0 && strings.Contains(tail, "github.com/bobertlo/gmars") {
			// the process was taken down by a panic inside gmars (one that
			// the harness cannot recover: it happened in a goroutine gmars started)
			msg := tail[i:]
			if j := strings.Index(msg, "\n"); j > 0 {
				msg = msg[:j]
			}
			return nil, &crashError{msg: msg}
		}
		if len(tail) > 3000 {
			tail = tail[len(tail)-3000:]
		}
		return nil, fmt.Errorf("worker %s %v: %v; no report (stderr tail: %s)", filepath.Base(bin), args, err, tail)
	}
	if err != nil {
		return nil, fmt.Errorf("worker %s %v exited with %v after printing a report", filepath.Base(bin), args, err)
	}
	return &rep, nil
}

// crashError: the worker died from an unrecovered panic inside gmars.
type crashError struct{ msg string }

func (c *crashError) Error() string { return "worker crashed: " + c.msg }

func seed() int64 {
	s, _ := strconv.ParseInt(os.Getenv("VERIF_SEED"), 10, 64)
	return s
}

func check(prop, tier string) int {
	start := time.Now()
	if tier != "quick" && tier != "thorough" {
		fatal("tier must be quick or thorough")
	}
	plan, ok := plans()[prop]
	if !ok {
		fatal("no check for property %s", prop)
	}
	jobs := plan.Quick
	capS := plan.QuickCap
	if tier == "thorough" {
		jobs = plan.Thorough
		capS = plan.ThoroughCap
	}
	needInst, needRace, needCLI := false, false, false
	for _, j := range jobs {
		needInst = needInst || j.Inst
		needRace = needRace || j.Race
		needCLI = needCLI || j.CLI
	}
	work := filepath.Join(verifDir, ".work", fmt.Sprintf("%s-%s-%d", prop, tier, os.Getpid()))
	os.MkdirAll(work, 0o755)
	workDir = work
	defer os.RemoveAll(work)
	b, err := buildHarness(work, needInst, needRace, needCLI)
	os.Setenv("VH_CLI_DIR", work)
	if err != nil {
		fatal("%v", err)
	}

	ncpu := runtime.NumCPU()
	if ncpu > 16 {
		ncpu = 16
	}
	merged := &Report{Counters: map[string]int64{}, Exhaustive: true}
	merged.Notes = append(merged.Notes, b.notes...)
	var bounds []string
	type jobViol struct {
		job   Job
		v     Violation
		shard []string // arguments of the worker that reported it
	}
	var viols []jobViol
	for _, job := range jobs {
		n := job.Shards
		if n == 0 {
			n = ncpu
		}
		bin := b.plain
		if job.Inst {
			bin = b.inst
		}
		if job.Race {
			bin = b.race
		}
		reps := make([]*Report, n)
		errs := make([]error, n)
		var wg sync.WaitGroup
		// VERIF_SEED only permutes which shard runs on which slot
		rot := int(seed() % int64(n))
		if rot < 0 {
			rot = -rot
		}
		for i := 0; i < n; i++ {
			wg.Add(1)
			go func(i int) {
				defer wg.Done()
				sh := (i + rot) % n
				args := []string{job.Engine, "-tier", tier, "-shard", fmt.Sprintf("%d/%d", sh, n), "-cap", strconv.Itoa(capS)}
				if !job.NoProps {
					args = append(args, "-props", prop)
				}
				args = append(args, job.Args...)
				env := workerEnv()
				if job.Race || job.Shards == 1 {
					env = append(os.Environ(), "GORACE=exitcode=0")
				}
				reps[sh], errs[sh] = runWorker(bin, args, env)
			}(i)
		}
		wg.Wait()
		for i := 0; i < n; i++ {
			if ce, ok := errs[i].(*crashError); ok {
				// run the shard again with crash tracing to learn which case it was
				tf := filepath.Join(work, fmt.Sprintf("trace-%s-%d", job.Name, i))
				args := []string{job.Engine, "-tier", tier, "-shard", fmt.Sprintf("%d/%d", i, n), "-cap", strconv.Itoa(capS)}
				if !job.NoProps {
					args = append(args, "-props", prop)
				}
				args = append(args, job.Args...)
				runWorker(bin, args, append(workerEnv(), "VH_TRACE="+tf))
				if b, err := os.ReadFile(tf); err == nil && len(b) > 0 {
					parts := strings.SplitN(string(b), "\n", 2)
					if len(parts) == 2 && parts[0] == prop {
						viols = append(viols, jobViol{job, Violation{Prop: prop, Kind: "process-crash", Witness: parts[1], Detail: "the process is taken down by a panic in a goroutine started by gmars: " + ce.msg}, nil})
						merged.Exhaustive = false
						merged.Notes = append(merged.Notes, fmt.Sprintf("shard %d of job %s crashed and is not counted", i, job.Name))
						continue
					}
				}
				fatal("machinery failure in job %s: %v (the crashing case could not be identified)", job.Name, errs[i])
			}
			if errs[i] != nil {
				fatal("machinery failure in job %s: %v", job.Name, errs[i])
			}
			r := reps[i]
			merged.States += r.States
			merged.Transitions += r.Transitions
			merged.Traces += r.Traces
			merged.NViol += r.NViol
			for k, v := range r.Counters {
				merged.Counters[k] += v
			}
			if len(merged.Samples) < 8 {
				for _, s := range r.Samples {
					if len(merged.Samples) < 8 {
						merged.Samples = append(merged.Samples, s)
					}
				}
			}
			if !r.Exhaustive {
				merged.Exhaustive = false
			}
			for _, nt := range r.Notes {
				found := false
				for _, x := range merged.Notes {
					if x == nt {
						found = true
					}
				}
				if !found {
					merged.Notes = append(merged.Notes, nt)
				}
			}
			shardArgs := []string{job.Engine, "-tier", tier, "-shard", fmt.Sprintf("%d/%d", i, n), "-cap", strconv.Itoa(capS)}
			if !job.NoProps {
				shardArgs = append(shardArgs, "-props", prop)
			}
			shardArgs = append(shardArgs, job.Args...)
			for _, v := range r.Violations {
				if v.Prop == prop {
					viols = append(viols, jobViol{job, v, shardArgs})
				}
			}
			if i == 0 && r.Bound != "" {
				bounds = append(bounds, job.Name+": "+r.Bound)
			}
		}
	}

	// sort candidate violations; confirm by replay; match against known findings
	sort.SliceStable(viols, func(i, j int) bool {
		if viols[i].v.Kind != viols[j].v.Kind {
			return viols[i].v.Kind < viols[j].v.Kind
		}
		if len(viols[i].v.Witness) != len(viols[j].v.Witness) {
			return len(viols[i].v.Witness) < len(viols[j].v.Witness)
		}
		return viols[i].v.Witness < viols[j].v.Witness
	})
	known := loadKnown()
	var lines []string
	exit := 0
	perKind := map[string]int{}
	tried := map[string]int{}
	var unconfirmed []string
	historyTried := map[string]bool{}
	knownPrinted := map[int]bool{}
	confirmed := 0
	for _, jv := range viols {
		v := jv.v
		if ki := matchKnown(known, v); ki >= 0 {
			if !knownPrinted[ki] {
				knownPrinted[ki] = true
				lines = append(lines, fmt.Sprintf("KNOWN-FINDING: property=%s %s", prop, known.Findings[ki].What))
			}
			continue
		}
		if perKind[v.Kind] >= 3 || tried[v.Kind] >= 12 {
			continue
		}
		tried[v.Kind]++
		// confirm by replaying in fresh processes
		bin := b.plain
		if jv.job.Inst {
			bin = b.inst
		}
		if jv.job.Race {
			bin = b.race
		}
		okc, why := confirm(bin, jv.job, prop, v)
		if !okc && jv.shard != nil && !historyTried[v.Kind] && confirmed == 0 {
			// the case alone does not show it in a fresh process: it may depend on
			// what the same worker executed before it (state kept by gmars across
			// calls). Re-run the worker's whole shard twice: if both runs report
			// the identical violation, it is a deterministic, history-dependent
			// violation, and the shard is its replayable witness.
			historyTried[v.Kind] = true
			same := 0
			for k := 0; k < 2; k++ {
				r2, err := runWorker(bin, jv.shard, workerEnv())
				if err != nil {
					break
				}
				for _, x := range r2.Violations {
					if x.Prop == prop && x.Kind == v.Kind && x.Witness == v.Witness && x.Detail == v.Detail {
						same++
						break
					}
				}
			}
			if same == 2 {
				perKind[v.Kind]++
				confirmed++
				path := writeReplayShard(prop, jv.job, v, jv.shard)
				lines = append(lines, fmt.Sprintf("VIOLATION property=%s replay=%s", prop, path))
				lines = append(lines, fmt.Sprintf("  kind=%s witness=%s", v.Kind, trunc(v.Witness, 600)))
				lines = append(lines, fmt.Sprintf("  detail=%s", trunc(v.Detail, 600)))
				lines = append(lines, "  (history-dependent: the case alone does not show it in a fresh process; the same worker shard reports it identically on every run - replaying re-runs that shard)")
				exit = 1
				continue
			}
		}
		if !okc {
			// a candidate that does not reproduce in a fresh process is not
			// believed (it can depend on state left by earlier executions of
			// the same worker); other candidates are still tried
			unconfirmed = append(unconfirmed, fmt.Sprintf("kind=%s: %s; witness: %s", v.Kind, why, trunc(v.Witness, 300)))
			continue
		}
		perKind[v.Kind]++
		confirmed++
		path := writeReplay(prop, jv.job, v)
		lines = append(lines, fmt.Sprintf("VIOLATION property=%s replay=%s", prop, path))
		lines = append(lines, fmt.Sprintf("  kind=%s witness=%s", v.Kind, trunc(v.Witness, 600)))
		lines = append(lines, fmt.Sprintf("  detail=%s", trunc(v.Detail, 600)))
		exit = 1
	}

	if len(unconfirmed) > 0 {
		merged.Notes = append(merged.Notes, fmt.Sprintf("%d candidate violations did not reproduce identically in a fresh process and were not reported", len(unconfirmed)))
	}
	writeEvidence(prop, tier, plan, merged, bounds, time.Since(start).Seconds(), confirmed, len(knownPrinted))
	if confirmed == 0 && len(unconfirmed) > 0 && exit == 0 {
		for _, u := range unconfirmed {
			fmt.Fprintln(os.Stderr, "unconfirmed candidate:", u)
		}
		fatal("candidate violations were found but none reproduced on replay in a fresh process (machinery fault or history-dependent behaviour; not a verdict)")
	}
	fmt.Printf("check %s %s: states=%d transitions=%d traces_validated=%d exhaustive=%v violations=%d wall=%.1fs\n",
		prop, tier, merged.States, merged.Transitions, merged.Traces, merged.Exhaustive, merged.NViol, time.Since(start).Seconds())
	for _, l := range lines {
		fmt.Println(l)
	}
	return exit
}

// witnessArg passes a witness to a worker: short ones on the command line,
// long ones (a single argument is limited to 128 KiB) through a file named
// by an @ argument.
var witnessFiles int

func witnessArg(w string) string {
	if len(w) < 60000 {
		return w
	}
	dir := workDir
	if dir == "" {
		dir = os.TempDir()
	}
	witnessFiles++
	p := filepath.Join(dir, fmt.Sprintf("witness-%d-%d.txt", os.Getpid(), witnessFiles))
	if err := os.WriteFile(p, []byte(w), 0o644); err != nil {
		fatal("cannot write the witness file: %v", err)
	}
	return "@" + p
}

func trunc(s string, n int) string {
	if len(s) > n {
		return s[:n] + "..."
	}
	return s
}

func confirm(bin string, job Job, prop string, v Violation) (bool, string) {
	var first string
	n := 5
	if strings.Contains(v.Kind, "does-not-return") || strings.Contains(v.Kind, "does-not-exit") || strings.Contains(v.Kind, "watchdog") {
		n = 2 // every replay of a non-returning call costs the whole watchdog limit
	}
	for i := 0; i < n; i++ {
		args := []string{job.Engine, "-props", prop, "-replay", witnessArg(v.Witness)}
		args = append(args, job.Args...)
		rep, err := runWorker(bin, args, append(workerEnv(), "VH_WATCHDOG_S=12"))
		if v.Kind == "process-crash" {
			if _, ok := err.(*crashError); !ok {
				return false, fmt.Sprintf("replay %d did not crash", i)
			}
			continue
		}
		if err != nil {
			return false, err.Error()
		}
		var got []string
		for _, x := range rep.Violations {
			if x.Prop == prop {
				got = append(got, x.Kind+"|"+x.Detail)
			}
		}
		sort.Strings(got)
		s := strings.Join(got, "\n")
		found := false
		for _, x := range rep.Violations {
			if x.Prop == prop && x.Kind == v.Kind {
				found = true
			}
		}
		if !found {
			return false, fmt.Sprintf("replay %d did not show kind %s (got %q)", i, v.Kind, s)
		}
		if i == 0 {
			first = s
		} else if s != first {
			return false, fmt.Sprintf("replay %d differs: %q vs %q", i, s, first)
		}
	}
	return true, ""
}

func loadKnown() *KnownFile {
	var k KnownFile
	b, err := os.ReadFile(filepath.Join(verifDir, "known_findings.json"))
	if err != nil {
		return &k
	}
	if err := json.Unmarshal(b, &k); err != nil {
		fatal("known_findings.json: %v", err)
	}
	return &k
}

func matchKnown(k *KnownFile, v Violation) int {
	for i, f := range k.Findings {
		if f.Property == v.Prop && f.Kind == v.Kind && strings.Contains(v.Witness, f.Witness) {
			return i
		}
	}
	return -1
}

type replayFile struct {
	Property string   `json:"property"`
	Engine   string   `json:"engine"`
	Args     []string `json:"args"`
	Inst     bool     `json:"instrumented_build"`
	Race     bool     `json:"race_build"`
	Kind     string   `json:"kind"`
	Witness  string   `json:"witness"`
	Detail   string   `json:"detail"`
	HowTo    string   `json:"how_to_replay"`
	Shard    []string `json:"rerun_worker_shard,omitempty"` // history-dependent violation: re-run this worker
}

func writeReplayShard(prop string, job Job, v Violation, shard []string) string {
	dir := filepath.Join(verifDir, "replays")
	os.MkdirAll(dir, 0o755)
	h := sha1.Sum([]byte(v.Kind + "\x00" + v.Witness))
	path := filepath.Join(dir, fmt.Sprintf("%s-%s-%x.json", prop, v.Kind, h[:5]))
	rf := replayFile{Property: prop, Engine: job.Engine, Args: job.Args, Inst: job.Inst, Race: job.Race, Kind: v.Kind, Witness: v.Witness, Detail: v.Detail,
		HowTo: "cd /verif && ./run.sh replay " + path, Shard: shard}
	b, _ := json.MarshalIndent(rf, "", " ")
	os.WriteFile(path, b, 0o644)
	return path
}

func writeReplay(prop string, job Job, v Violation) string {
	dir := filepath.Join(verifDir, "replays")
	os.MkdirAll(dir, 0o755)
	h := sha1.Sum([]byte(v.Kind + "\x00" + v.Witness))
	path := filepath.Join(dir, fmt.Sprintf("%s-%s-%x.json", prop, v.Kind, h[:5]))
	rf := replayFile{Property: prop, Engine: job.Engine, Args: job.Args, Inst: job.Inst, Race: job.Race, Kind: v.Kind, Witness: v.Witness, Detail: v.Detail,
		HowTo: "cd /verif && ./run.sh replay " + path}
	b, _ := json.MarshalIndent(rf, "", " ")
	os.WriteFile(path, b, 0o644)
	return path
}

func replay(path string) int {
	b, err := os.ReadFile(path)
	if err != nil {
		fatal("%v", err)
	}
	var rf replayFile
	if err := json.Unmarshal(b, &rf); err != nil {
		fatal("%v", err)
	}
	work := filepath.Join(verifDir, ".work", fmt.Sprintf("replay-%d", os.Getpid()))
	os.MkdirAll(work, 0o755)
	workDir = work
	defer os.RemoveAll(work)
	bl, err := buildHarness(work, rf.Inst, rf.Race, rf.Engine == "e8")
	os.Setenv("VH_CLI_DIR", work)
	if err != nil {
		fatal("%v", err)
	}
	bin := bl.plain
	if rf.Inst {
		bin = bl.inst
	}
	if rf.Race {
		bin = bl.race
	}
	args := append([]string{rf.Engine, "-props", rf.Property, "-replay", witnessArg(rf.Witness)}, rf.Args...)
	if rf.Shard != nil {
		args = rf.Shard // a history-dependent violation: the whole shard is the witness
	}
	rep, err := runWorker(bin, args, workerEnv())
	if err != nil {
		fatal("%v", err)
	}
	n := 0
	for _, v := range rep.Violations {
		if rf.Shard != nil && !(v.Kind == rf.Kind && v.Witness == rf.Witness) {
			continue
		}
		if v.Prop == rf.Property {
			fmt.Printf("VIOLATION property=%s replay=%s\n  kind=%s\n  witness=%s\n  detail=%s\n", v.Prop, path, v.Kind, trunc(v.Witness, 2000), trunc(v.Detail, 4000))
			n++
		}
	}
	if n == 0 {
		fmt.Printf("replay of %s: property %s holds on this input now\n", path, rf.Property)
		return 0
	}
	return 1
}

func writeEvidence(prop, tier string, plan Plan, m *Report, bounds []string, wall float64, confirmed, knownN int) {
	vac := map[string]int64{}
	for k, v := range m.Counters {
		vac[k] = v
	}
	samples := make([]any, 0, len(m.Samples))
	for _, s := range m.Samples {
		samples = append(samples, s)
	}
	if len(samples) == 0 {
		samples = append(samples, "(no sample recorded)")
	}
	cov := map[string]any{
		"states":                         m.States,
		"transitions":                    m.Transitions,
		"traces_validated_against_impl":  m.Traces,
		"samples":                        samples,
		"exhaustive":                     m.Exhaustive,
		"bounds":                         bounds,
		"vacuity_counters":               vac,
		"notes":                          m.Notes,
		"violations_counted":             m.NViol,
		"violations_confirmed_by_replay": confirmed,
		"known_findings_matched":         knownN,
	}
	ev := map[string]any{
		"property_id": prop,
		"tier":        tier,
		"seed":        seed(),
		"level":       "model_checking",
		"coverage":    cov,
		"assumptions": plan.Assumptions,
		"wall_s":      wall,
		"violations":  confirmed,
	}
	b, _ := json.MarshalIndent(ev, "", " ")
	// runs against a deliberately changed /repo (tools/seedcheck.py, tools/reseed.py)
	// set VMC_EVIDENCE_DIR so that they do not overwrite the evidence of the unchanged tree
	evDir := filepath.Join(verifDir, "evidence")
	if d := os.Getenv("VMC_EVIDENCE_DIR"); d != "" {
		evDir = d
	}
	os.MkdirAll(evDir, 0o755)
	if err := os.WriteFile(filepath.Join(evDir, prop+".json"), b, 0o644); err != nil {
		fatal("%v", err)
	}
}

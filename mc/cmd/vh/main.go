// vh is the harness binary: it is rebuilt from /repo's working tree by every
// check and runs one shard of one engine, printing a JSON report.
package main

import (
	"flag"
	"fmt"
	"os"
	"strings"
	"time"

	"verif/mc/engines/e1"
	"verif/mc/engines/e2"
	"verif/mc/engines/e3"
	"verif/mc/engines/e4"
	"verif/mc/engines/e5"
	"verif/mc/engines/e6"
	"verif/mc/engines/e7"
	"verif/mc/engines/e8"
	"verif/mc/hx"
)

func main() {
	if len(os.Args) < 2 {
		fmt.Fprintln(os.Stderr, "usage: vh <engine> [flags]")
		os.Exit(3)
	}
	eng := os.Args[1]
	fs := flag.NewFlagSet(eng, flag.ExitOnError)
	shard := fs.String("shard", "0/1", "i/n")
	tier := fs.String("tier", "quick", "quick|thorough")
	props := fs.String("props", "", "comma separated property ids")
	replay := fs.String("replay", "", "witness to replay")
	job := fs.String("job", "", "engine-specific job name")
	capS := fs.Int("cap", 0, "time cap in seconds (0: none)")
	fs.Parse(os.Args[2:])
	if strings.HasPrefix(*replay, "@") {
		// a long witness comes in a file
		data, err := os.ReadFile((*replay)[1:])
		if err != nil {
			fmt.Fprintln(os.Stderr, err)
			os.Exit(3)
		}
		*replay = string(data)
	}
	sh := hx.ParseShard(*shard)
	var deadline time.Time
	if *capS > 0 {
		deadline = time.Now().Add(time.Duration(*capS) * time.Second)
	}
	rep := hx.NewReport(eng, sh)
	switch eng {
	case "e1":
		p := e1.ParseProps(*props)
		if *replay != "" {
			st, err := e1.ParseState(*replay)
			if err != nil {
				fmt.Fprintln(os.Stderr, err)
				os.Exit(3)
			}
			e1.TwoSteps = p.C01 && !p.C15
			(&e1.Checker{Rep: rep, Props: p}).Check(st)
		} else {
			e1.Run(rep, p, *tier, sh, deadline)
		}
	case "e2":
		p := e2.ParseProps(*props)
		if *replay != "" {
			if strings.HasPrefix(*replay, "config ") {
				cc, err := e2.ParseConfigCase(*replay)
				if err != nil {
					fmt.Fprintln(os.Stderr, err)
					os.Exit(3)
				}
				(&e2.Checker{Rep: rep, Props: p}).CheckConfig(cc)
				rep.Emit()
				return
			}
			b, err := e2.ParseBattle(*replay)
			if err != nil {
				fmt.Fprintln(os.Stderr, err)
				os.Exit(3)
			}
			(&e2.Checker{Rep: rep, Props: p}).Check(b)
		} else {
			e2.Run(rep, p, *tier, sh, deadline)
		}
	case "e3":
		eng := &e3.Engine{Rep: rep, WD: hx.NewWatchdog(rep, 20*time.Second), Deadline: deadline, MaxW: 2, MaxDepth: 40, MaxState: 3000000, Sh: sh}
		if *tier == "thorough" {
			eng.MaxW = 3
		}
		if *replay != "" {
			eng.MaxW = 3
			if err := eng.Replay(*replay); err != nil {
				fmt.Fprintln(os.Stderr, err)
				os.Exit(3)
			}
		} else {
			eng.Run(*tier)
		}
	case "e4":
		ctx := &e4.Ctx{Rep: rep, Sh: sh, Deadline: deadline, WD: hx.NewWatchdog(rep, 30*time.Second)}
		if *replay != "" {
			if err := ctx.Replay(*props, *replay); err != nil {
				fmt.Fprintln(os.Stderr, err)
				os.Exit(3)
			}
		} else {
			ctx.Run(*props, *tier)
		}
	case "e5":
		ctx := &e5.Ctx{Rep: rep, Sh: sh, Deadline: deadline, WD: hx.NewWatchdog(rep, 30*time.Second)}
		if *replay != "" {
			if err := ctx.Replay(*props, *replay); err != nil {
				fmt.Fprintln(os.Stderr, err)
				os.Exit(3)
			}
		} else {
			ctx.Run(*props, *tier)
		}
	case "e6":
		ctx := &e6.Ctx{Rep: rep, Sh: sh, Deadline: deadline, WD: hx.NewWatchdog(rep, 60*time.Second), Props: *props}
		if *replay != "" {
			if err := ctx.Replay(*replay); err != nil {
				fmt.Fprintln(os.Stderr, err)
				os.Exit(3)
			}
		} else {
			ctx.Run(*job, *tier)
		}
	case "e7":
		ctx := &e7.Ctx{Rep: rep, Sh: sh, Deadline: deadline, WD: hx.NewWatchdog(rep, 120*time.Second)}
		if *replay != "" {
			if err := ctx.Replay(*job, *replay, *capS); err != nil {
				fmt.Fprintln(os.Stderr, err)
				os.Exit(3)
			}
			if *job == "race-child" {
				return
			}
		} else {
			ctx.Run(*job, *tier)
		}
	case "e8":
		dir := os.Getenv("VH_CLI_DIR")
		if dir == "" {
			fmt.Fprintln(os.Stderr, "VH_CLI_DIR not set")
			os.Exit(3)
		}
		wd := dir + "/w" + strings.ReplaceAll(*shard, "/", "_")
		os.MkdirAll(wd, 0o755)
		ctx := &e8.Ctx{Rep: rep, Sh: sh, Deadline: deadline, Bin: dir + "/gmars", Dir: wd}
		if _, err := os.Stat(dir + "/gmars-rand"); err == nil {
			ctx.BinRand = dir + "/gmars-rand"
		}
		if *replay != "" {
			if err := ctx.Replay(*replay); err != nil {
				fmt.Fprintln(os.Stderr, err)
				os.Exit(3)
			}
		} else if *job == "listing" {
			ctx.RunListing(*tier)
		} else {
			ctx.Run(*tier)
		}
	default:
		fmt.Fprintln(os.Stderr, "unknown engine", eng)
		os.Exit(3)
	}
	rep.Emit()
}

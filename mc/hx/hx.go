// Package hx is the small library shared by the harness engines: worker
// reports, violation records, sharding and formatting helpers.
package hx

import (
	"encoding/json"
	"fmt"
	"os"
	"runtime"
	"sort"
	"strings"
	"sync"
	"time"

	g "github.com/bobertlo/gmars"
)

// Violation is one failing case. Kind names the oracle clause, Witness is the
// canonical, replayable description of the input / history / schedule.
type Violation struct {
	Prop    string `json:"prop"`
	Kind    string `json:"kind"`
	Witness string `json:"witness"`
	Detail  string `json:"detail"`
}

// Report is what one worker process prints (one JSON document on stdout).
type Report struct {
	Engine      string           `json:"engine"`
	Shard       string           `json:"shard"`
	States      int64            `json:"states"`
	Transitions int64            `json:"transitions"`
	Traces      int64            `json:"traces"`
	Counters    map[string]int64 `json:"counters"`
	Samples     []string         `json:"samples"`
	Violations  []Violation      `json:"violations"`
	NViol       int64            `json:"nviol"`
	Exhaustive  bool             `json:"exhaustive"`
	Notes       []string         `json:"notes"`
	Bound       string           `json:"bound"`
}

func NewReport(engine string, sh Shard) *Report {
	return &Report{Engine: engine, Shard: sh.String(), Counters: map[string]int64{}, Exhaustive: true}
}

const maxViolPerKind = 6

// Hit counts a violation and says whether its description should be recorded
// with Add (only the first few per kind are kept).
func (r *Report) Hit(prop, kind string) bool {
	r.NViol++
	r.Counters["viol:"+prop+":"+kind]++
	return r.Counters["viol:"+prop+":"+kind] <= maxViolPerKind
}

// stopOnViolation (VH_STOP_ON_VIOLATION set) ends the worker with status 7 at
// the first recorded violation: tools/mutation.py only needs to know whether
// a mutant is reported, not by how many cases.
var stopOnViolation = os.Getenv("VH_STOP_ON_VIOLATION") != ""

// Add records a violation counted by Hit.
func (r *Report) Add(prop, kind, witness, detail string) {
	r.Violations = append(r.Violations, Violation{prop, kind, witness, detail})
	if stopOnViolation {
		fmt.Fprintf(os.Stderr, "first violation: %s %s %.300s | %.300s\n", prop, kind, witness, detail)
		os.Exit(7)
	}
}

// Fail records a violation (at most a few per kind are kept, all are counted).
func (r *Report) Fail(prop, kind, witness, detail string) {
	r.NViol++
	r.Counters["viol:"+prop+":"+kind]++
	if r.Counters["viol:"+prop+":"+kind] > maxViolPerKind {
		return
	}
	r.Violations = append(r.Violations, Violation{prop, kind, witness, detail})
	if stopOnViolation {
		fmt.Fprintf(os.Stderr, "first violation: %s %s %.300s | %.300s\n", prop, kind, witness, detail)
		os.Exit(7)
	}
}

func (r *Report) Count(name string) { r.Counters[name]++ }

func (r *Report) Sample(s string) {
	if len(r.Samples) < 4 {
		r.Samples = append(r.Samples, s)
	}
}

func (r *Report) Note(s string) {
	for _, n := range r.Notes {
		if n == s {
			return
		}
	}
	r.Notes = append(r.Notes, s)
}

// Emit writes the report to stdout.
func (r *Report) Emit() {
	sort.Slice(r.Violations, func(i, j int) bool {
		a, b := r.Violations[i], r.Violations[j]
		if a.Kind != b.Kind {
			return a.Kind < b.Kind
		}
		return a.Witness < b.Witness
	})
	b, err := json.Marshal(r)
	if err != nil {
		fmt.Fprintln(os.Stderr, "marshal:", err)
		os.Exit(3)
	}
	os.Stdout.Write(b)
	os.Stdout.Write([]byte("\n"))
}

// Shard i of n: unit u belongs to the shard iff u % n == i.
type Shard struct{ I, N int }

func ParseShard(s string) Shard {
	var sh Shard
	if _, err := fmt.Sscanf(s, "%d/%d", &sh.I, &sh.N); err != nil || sh.N < 1 || sh.I < 0 || sh.I >= sh.N {
		fmt.Fprintln(os.Stderr, "bad shard", s)
		os.Exit(3)
	}
	return sh
}
func (s Shard) Mine(u int) bool { return u%s.N == s.I }
func (s Shard) String() string  { return fmt.Sprintf("%d/%d", s.I, s.N) }

// NForms is the number of (opcode, modifier, A-mode, B-mode) combinations.
const NForms = 17 * 7 * 8 * 8

// Form decodes a form index.
func Form(f int) (g.OpCode, g.OpMode, g.AddressMode, g.AddressMode) {
	return g.OpCode(f / 448), g.OpMode((f / 64) % 7), g.AddressMode((f / 8) % 8), g.AddressMode(f % 8)
}

// Mk builds an instruction from a form index and two fields.
func Mk(f int, a, b uint64) g.Instruction {
	op, md, am, bm := Form(f)
	return g.Instruction{Op: op, OpMode: md, AMode: am, A: g.Address(a), BMode: bm, B: g.Address(b)}
}

// FormOf encodes an instruction's form.
func FormOf(i g.Instruction) int {
	return int(i.Op)*448 + int(i.OpMode)*64 + int(i.AMode)*8 + int(i.BMode)
}

// InsStr renders an instruction compactly: "MOV.I $1 >2".
func InsStr(i g.Instruction) string {
	return fmt.Sprintf("%s.%s %s%d %s%d", i.Op, i.OpMode, i.AMode, i.A, i.BMode, i.B)
}

// CoreStr renders a list of instructions.
func CoreStr(c []g.Instruction) string {
	parts := make([]string, len(c))
	for i, x := range c {
		parts[i] = InsStr(x)
	}
	return "[" + strings.Join(parts, " | ") + "]"
}

// ParseIns parses the InsStr format.
func ParseIns(s string) (g.Instruction, error) {
	var opm, as, bs string
	if _, err := fmt.Sscanf(strings.TrimSpace(s), "%s %s %s", &opm, &as, &bs); err != nil {
		return g.Instruction{}, fmt.Errorf("bad instruction %q: %v", s, err)
	}
	parts := strings.Split(opm, ".")
	if len(parts) != 2 {
		return g.Instruction{}, fmt.Errorf("bad op %q", opm)
	}
	var ins g.Instruction
	found := false
	for o := g.DAT; o <= g.NOP; o++ {
		if o.String() == parts[0] {
			ins.Op, found = o, true
		}
	}
	if !found {
		return ins, fmt.Errorf("bad opcode %q", parts[0])
	}
	found = false
	for m := g.F; m <= g.I; m++ {
		if m.String() == parts[1] {
			ins.OpMode, found = m, true
		}
	}
	if !found {
		return ins, fmt.Errorf("bad modifier %q", parts[1])
	}
	pm := func(t string) (g.AddressMode, uint64, error) {
		for m := g.DIRECT; m <= g.B_INCREMENT; m++ {
			if strings.HasPrefix(t, m.String()) {
				var v uint64
				if _, err := fmt.Sscanf(t[1:], "%d", &v); err != nil {
					return 0, 0, err
				}
				return m, v, nil
			}
		}
		return 0, 0, fmt.Errorf("bad operand %q", t)
	}
	am, a, err := pm(as)
	if err != nil {
		return ins, err
	}
	bm, b, err := pm(bs)
	if err != nil {
		return ins, err
	}
	ins.AMode, ins.A, ins.BMode, ins.B = am, g.Address(a), bm, g.Address(b)
	return ins, nil
}

// ParseCore parses the CoreStr format.
func ParseCore(s string) ([]g.Instruction, error) {
	s = strings.TrimSpace(s)
	s = strings.TrimPrefix(s, "[")
	s = strings.TrimSuffix(s, "]")
	if strings.TrimSpace(s) == "" {
		return nil, nil
	}
	var out []g.Instruction
	for _, p := range strings.Split(s, "|") {
		i, err := ParseIns(p)
		if err != nil {
			return nil, err
		}
		out = append(out, i)
	}
	return out, nil
}

// Watchdog turns a case that does not return (or that eats memory without
// bound) into a recorded violation: the harness announces every case with
// Begin and a background goroutine emits the report and ends the process when
// one case has been running for far longer than any case can take.
type Watchdog struct {
	mu      sync.Mutex
	rep     *Report
	prop    string
	kind    string
	witness func() string
	since   time.Time
	active  bool
	Limit   time.Duration
	MemCap  uint64
}

var traceFile *os.File

func init() {
	if p := os.Getenv("VH_TRACE"); p != "" {
		traceFile, _ = os.Create(p)
	}
}

func NewWatchdog(rep *Report, limit time.Duration) *Watchdog {
	if s := os.Getenv("VH_WATCHDOG_S"); s != "" {
		// replays of a single case use a shorter (still generous) limit
		var n int
		if _, err := fmt.Sscanf(s, "%d", &n); err == nil && n > 0 {
			limit = time.Duration(n) * time.Second
		}
	}
	w := &Watchdog{rep: rep, Limit: limit, MemCap: 6 << 30}
	go w.loop()
	return w
}

// Begin announces a case. witness is only called if the case times out.
func (w *Watchdog) Begin(prop, kind string, witness func() string) {
	if traceFile != nil {
		// crash tracing (second run of a shard whose worker died): leave the
		// witness of the case about to run where the orchestrator finds it
		traceFile.Truncate(0)
		traceFile.WriteAt([]byte(prop+"\n"+witness()), 0)
	}
	w.mu.Lock()
	w.prop, w.kind, w.witness, w.since, w.active = prop, kind, witness, time.Now(), true
	w.mu.Unlock()
}

func (w *Watchdog) End() {
	w.mu.Lock()
	w.active = false
	w.mu.Unlock()
}

func (w *Watchdog) loop() {
	var ms runtime.MemStats
	for {
		time.Sleep(250 * time.Millisecond)
		w.mu.Lock()
		if w.active {
			over := time.Since(w.since) > w.Limit
			why := "the call did not return within the watchdog limit (cases of this kind take microseconds to milliseconds)"
			if !over {
				runtime.ReadMemStats(&ms)
				if ms.HeapAlloc > w.MemCap {
					over = true
					why = fmt.Sprintf("the call allocated more than %d MB without returning", w.MemCap>>20)
				}
			}
			if over {
				wit := w.witness()
				w.rep.NViol++
				w.rep.Counters["viol:"+w.prop+":"+w.kind]++
				w.rep.Violations = append(w.rep.Violations, Violation{w.prop, w.kind, wit, why})
				w.rep.Exhaustive = false
				w.rep.Note("enumeration stopped at the first non-returning case of this worker")
				w.rep.Emit()
				os.Exit(0)
			}
		}
		w.mu.Unlock()
	}
}

// Package ref holds the reference models. They are written from the ICWS'94
// draft (EMI94.c structure) and from the property statements and share no
// code with gmars: only the exported data types are imported.
package ref

import g "github.com/bobertlo/gmars"

type Ins = g.Instruction

// EvKind is the kind of one semantic event of a task.
type EvKind uint8

const (
	EvPop EvKind = iota
	EvDec
	EvInc
	EvWrite
	EvTaskTerm
)

// Event is one semantic event of the reference step. Optional events are
// events the property does not force to be reported (a write report for a
// DIV/MOD that changed nothing).
type Event struct {
	Kind     EvKind
	Addr     uint64
	Optional bool
}

// StepOut is what one reference step produced.
type StepOut struct {
	Push   []uint64 // successors in queueing order (before the process limit is applied)
	Events []Event  // semantic order
	WAB    uint64   // write target of the B operand
	RAB    uint64   // jump target of the A operand
	RPB    uint64   // absolute read target of the B operand
}

// Fold is the ICWS'94 limit folding.
func Fold(p, limit, M uint64) uint64 {
	if limit == 0 { // "limits ignored": plain core-size arithmetic
		return p % M
	}
	r := p % limit
	if r > limit/2 {
		r += M - limit
	}
	return r
}

func isAInd(m g.AddressMode) bool {
	return m == g.A_INDIRECT || m == g.A_DECREMENT || m == g.A_INCREMENT
}
func isPre(m g.AddressMode) bool  { return m == g.A_DECREMENT || m == g.B_DECREMENT }
func isPost(m g.AddressMode) bool { return m == g.A_INCREMENT || m == g.B_INCREMENT }

func getF(i *Ins, a bool) uint64 {
	if a {
		return uint64(i.A)
	}
	return uint64(i.B)
}

func setF(i *Ins, a bool, v uint64) {
	if a {
		i.A = g.Address(v)
	} else {
		i.B = g.Address(v)
	}
}

// evalOperand: relative read pointer, relative write pointer, latched copy.
func evalOperand(core []Ins, M, R, W, pc uint64, mode g.AddressMode, num uint64, out *StepOut) (rp, wp uint64, ir Ins) {
	if mode == g.IMMEDIATE {
		return 0, 0, core[pc]
	}
	rp = Fold(num, R, M)
	wp = Fold(num, W, M)
	var pip uint64
	if mode != g.DIRECT {
		useA := isAInd(mode)
		if isPre(mode) {
			c := &core[(pc+wp)%M]
			setF(c, useA, (getF(c, useA)+M-1)%M)
			out.Events = append(out.Events, Event{Kind: EvDec, Addr: (pc + wp) % M})
		}
		if isPost(mode) {
			pip = (pc + wp) % M
		}
		rp = Fold(rp+getF(&core[(pc+rp)%M], useA), R, M)
		wp = Fold(wp+getF(&core[(pc+wp)%M], useA), W, M)
	}
	ir = core[(pc+rp)%M]
	if isPost(mode) {
		c := &core[pip]
		useA := isAInd(mode)
		setF(c, useA, (getF(c, useA)+1)%M)
		out.Events = append(out.Events, Event{Kind: EvInc, Addr: pip})
	}
	return
}

// Step executes the instruction at pc on core (modified in place).
func Step(core []Ins, M, R, W, pc uint64) StepOut {
	var out StepOut
	out.Events = append(out.Events, Event{Kind: EvPop, Addr: pc})
	IR := core[pc]
	rpa, _, IRA := evalOperand(core, M, R, W, pc, IR.AMode, uint64(IR.A), &out)
	rpb, wpb, IRB := evalOperand(core, M, R, W, pc, IR.BMode, uint64(IR.B), &out)
	wab := (pc + wpb) % M
	rab := (pc + rpa) % M
	out.WAB, out.RAB, out.RPB = wab, rab, (pc+rpb)%M
	next := (pc + 1) % M
	skip := (pc + 2) % M
	t := &core[wab]
	a, b := uint64(IRA.A), uint64(IRA.B)
	ba, bb := uint64(IRB.A), uint64(IRB.B)
	die := func() { out.Events = append(out.Events, Event{Kind: EvTaskTerm, Addr: pc}) }
	arith := func(f func(x, y uint64) (uint64, bool)) {
		ok := true
		wrote := false
		do := func(dstA bool, x, y uint64) {
			v, good := f(x, y)
			if good {
				setF(t, dstA, v)
				wrote = true
			} else {
				ok = false
			}
		}
		switch IR.OpMode {
		case g.A:
			do(true, ba, a)
		case g.B:
			do(false, bb, b)
		case g.AB:
			do(false, bb, a)
		case g.BA:
			do(true, ba, b)
		case g.F, g.I:
			do(true, ba, a)
			do(false, bb, b)
		case g.X:
			do(false, bb, a)
			do(true, ba, b)
		}
		out.Events = append(out.Events, Event{Kind: EvWrite, Addr: wab, Optional: !wrote})
		if ok {
			out.Push = append(out.Push, next)
		} else {
			die()
		}
	}
	switch IR.Op {
	case g.DAT:
		die()
	case g.MOV:
		switch IR.OpMode {
		case g.A:
			t.A = IRA.A
		case g.B:
			t.B = IRA.B
		case g.AB:
			t.B = IRA.A
		case g.BA:
			t.A = IRA.B
		case g.F:
			t.A, t.B = IRA.A, IRA.B
		case g.X:
			t.B, t.A = IRA.A, IRA.B
		case g.I:
			*t = IRA
		}
		out.Events = append(out.Events, Event{Kind: EvWrite, Addr: wab})
		out.Push = append(out.Push, next)
	case g.ADD:
		arith(func(x, y uint64) (uint64, bool) { return (x + y) % M, true })
	case g.SUB:
		arith(func(x, y uint64) (uint64, bool) { return (x + M - y) % M, true })
	case g.MUL:
		arith(func(x, y uint64) (uint64, bool) { return (x * y) % M, true })
	case g.DIV:
		arith(func(x, y uint64) (uint64, bool) {
			if y == 0 {
				return 0, false
			}
			return x / y, true
		})
	case g.MOD:
		arith(func(x, y uint64) (uint64, bool) {
			if y == 0 {
				return 0, false
			}
			return x % y, true
		})
	case g.JMP:
		out.Push = append(out.Push, rab)
	case g.JMZ, g.JMN, g.DJN:
		if IR.Op == g.DJN {
			// the core cell and the latched copy are decremented separately,
			// the copy without reduction (unsigned wrap is "not zero")
			switch IR.OpMode {
			case g.A, g.BA:
				t.A = g.Address((uint64(t.A) + M - 1) % M)
				ba--
			case g.B, g.AB:
				t.B = g.Address((uint64(t.B) + M - 1) % M)
				bb--
			default:
				t.A = g.Address((uint64(t.A) + M - 1) % M)
				ba--
				t.B = g.Address((uint64(t.B) + M - 1) % M)
				bb--
			}
			out.Events = append(out.Events, Event{Kind: EvDec, Addr: wab})
		}
		za, zb := ba == 0, bb == 0
		var zero bool
		switch IR.OpMode {
		case g.A, g.BA:
			zero = za
		case g.B, g.AB:
			zero = zb
		default:
			zero = za && zb
		}
		jump := !zero
		if IR.Op == g.JMZ {
			jump = zero
		}
		if jump {
			out.Push = append(out.Push, rab)
		} else {
			out.Push = append(out.Push, next)
		}
	case g.CMP, g.SEQ, g.SNE, g.SLT:
		var eq, lt bool
		switch IR.OpMode {
		case g.A:
			eq, lt = a == ba, a < ba
		case g.B:
			eq, lt = b == bb, b < bb
		case g.AB:
			eq, lt = a == bb, a < bb
		case g.BA:
			eq, lt = b == ba, b < ba
		case g.F:
			eq, lt = a == ba && b == bb, a < ba && b < bb
		case g.X:
			eq, lt = a == bb && b == ba, a < bb && b < ba
		case g.I:
			eq, lt = IRA == IRB, a < ba && b < bb
		}
		cond := eq
		if IR.Op == g.SNE {
			cond = !eq
		} else if IR.Op == g.SLT {
			cond = lt
		}
		if cond {
			out.Push = append(out.Push, skip)
		} else {
			out.Push = append(out.Push, next)
		}
	case g.SPL:
		out.Push = append(out.Push, next, rab)
	case g.NOP:
		out.Push = append(out.Push, next)
	}
	return out
}

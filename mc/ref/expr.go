package ref

import (
	"fmt"
	"math/big"
	"strings"
)

// R-expr: an independent evaluator for Redcode integer expressions over
// + - * / %, unary signs and parentheses: usual precedence, left
// associativity, exact arithmetic, / and % truncating toward zero.

// ErrDivZero is returned for a zero divisor.
var ErrDivZero = fmt.Errorf("division by zero")

// Tokenize splits an expression text into numbers, names, operators and parentheses.
func Tokenize(s string) ([]string, error) {
	var out []string
	i := 0
	for i < len(s) {
		c := s[i]
		switch {
		case c == ' ' || c == '\t':
			i++
		case c >= '0' && c <= '9':
			j := i
			for j < len(s) && s[j] >= '0' && s[j] <= '9' {
				j++
			}
			out = append(out, s[i:j])
			i = j
		case c == '_' || (c >= 'a' && c <= 'z') || (c >= 'A' && c <= 'Z'):
			j := i
			for j < len(s) && (s[j] == '_' || (s[j] >= 'a' && s[j] <= 'z') || (s[j] >= 'A' && s[j] <= 'Z') || (s[j] >= '0' && s[j] <= '9')) {
				j++
			}
			out = append(out, s[i:j])
			i = j
		case strings.ContainsRune("+-*/%()", rune(c)):
			out = append(out, string(c))
			i++
		default:
			return nil, fmt.Errorf("unexpected character %q", c)
		}
	}
	return out, nil
}

type exprParser struct {
	toks []string
	pos  int
	name func(string) (*big.Int, error)
}

func (p *exprParser) peek() string {
	if p.pos < len(p.toks) {
		return p.toks[p.pos]
	}
	return ""
}

// EvalTokens evaluates a token list; names are resolved by name (which may be nil).
func EvalTokens(toks []string, name func(string) (*big.Int, error)) (*big.Int, error) {
	p := &exprParser{toks: toks, name: name}
	v, err := p.sum()
	if err != nil {
		return nil, err
	}
	if p.pos != len(p.toks) {
		return nil, fmt.Errorf("unexpected %q", p.peek())
	}
	return v, nil
}

func (p *exprParser) sum() (*big.Int, error) {
	v, err := p.product()
	if err != nil {
		return nil, err
	}
	for p.peek() == "+" || p.peek() == "-" {
		op := p.peek()
		p.pos++
		r, err := p.product()
		if err != nil {
			return nil, err
		}
		if op == "+" {
			v = new(big.Int).Add(v, r)
		} else {
			v = new(big.Int).Sub(v, r)
		}
	}
	return v, nil
}

func (p *exprParser) product() (*big.Int, error) {
	v, err := p.unary()
	if err != nil {
		return nil, err
	}
	for p.peek() == "*" || p.peek() == "/" || p.peek() == "%" {
		op := p.peek()
		p.pos++
		r, err := p.unary()
		if err != nil {
			return nil, err
		}
		switch op {
		case "*":
			v = new(big.Int).Mul(v, r)
		case "/":
			if r.Sign() == 0 {
				return nil, ErrDivZero
			}
			v = new(big.Int).Quo(v, r) // truncates toward zero
		case "%":
			if r.Sign() == 0 {
				return nil, ErrDivZero
			}
			v = new(big.Int).Rem(v, r) // sign of the dividend
		}
	}
	return v, nil
}

func (p *exprParser) unary() (*big.Int, error) {
	switch t := p.peek(); {
	case t == "-":
		p.pos++
		v, err := p.unary()
		if err != nil {
			return nil, err
		}
		return new(big.Int).Neg(v), nil
	case t == "+":
		p.pos++
		return p.unary()
	case t == "(":
		p.pos++
		v, err := p.sum()
		if err != nil {
			return nil, err
		}
		if p.peek() != ")" {
			return nil, fmt.Errorf("missing )")
		}
		p.pos++
		return v, nil
	case t == "":
		return nil, fmt.Errorf("unexpected end of expression")
	case t[0] >= '0' && t[0] <= '9':
		p.pos++
		v, ok := new(big.Int).SetString(t, 10)
		if !ok {
			return nil, fmt.Errorf("bad number %q", t)
		}
		return v, nil
	case t[0] == '_' || (t[0] >= 'a' && t[0] <= 'z') || (t[0] >= 'A' && t[0] <= 'Z'):
		p.pos++
		if p.name == nil {
			return nil, fmt.Errorf("unresolved name %q", t)
		}
		return p.name(t)
	default:
		return nil, fmt.Errorf("unexpected %q", t)
	}
}

// ModM reduces v into [0, M).
func ModM(v *big.Int, M uint64) uint64 {
	m := new(big.Int).SetUint64(M)
	r := new(big.Int).Mod(v, m) // Euclidean: non-negative
	return r.Uint64()
}

// Fits32 reports whether v lies in the signed 32-bit range.
func Fits32(v *big.Int) bool {
	return v.IsInt64() && v.Int64() >= -(1<<31) && v.Int64() <= (1<<31)-1
}

package ref

import (
	"fmt"
	"math/big"
	"strings"

	g "github.com/bobertlo/gmars"
)

// R-asm: the meaning of an abstract Redcode program, computed without gmars.

// Operand of an abstract instruction.
type Operand struct {
	Present bool
	Mode    string   // "" (omitted) or one of # $ @ < > * { }
	Expr    []string // tokens: numbers, names, operators, parentheses
}

type AIns struct {
	Labels []string
	Op     string // lower-case opcode name
	Mod    string // "" (omitted) or a, b, ab, ba, f, x, i
	A, B   Operand
}

type AEqu struct {
	Name string
	Body []string
}

const (
	StartNone = iota
	StartOrg
	StartEnd
)

type AProg struct {
	Equs      []AEqu
	Ins       []AIns
	StartKind int
	StartExpr []string
	Name      string
	Author    string
	Strategy  []string
}

var opNames = map[string]g.OpCode{"dat": g.DAT, "mov": g.MOV, "add": g.ADD, "sub": g.SUB, "mul": g.MUL, "div": g.DIV, "mod": g.MOD,
	"cmp": g.CMP, "seq": g.SEQ, "sne": g.SNE, "slt": g.SLT, "jmp": g.JMP, "jmz": g.JMZ, "jmn": g.JMN, "djn": g.DJN, "spl": g.SPL, "nop": g.NOP}

var OpList = []string{"dat", "mov", "add", "sub", "mul", "div", "mod", "cmp", "seq", "sne", "slt", "jmp", "jmz", "jmn", "djn", "spl", "nop"}
var OpList88 = []string{"dat", "mov", "add", "sub", "cmp", "slt", "jmp", "jmz", "jmn", "djn", "spl"}
var ModList = []string{"a", "b", "ab", "ba", "f", "x", "i"}
var ModeList = []string{"#", "$", "@", "<", ">", "*", "{", "}"}
var ModeList88 = []string{"#", "$", "@", "<"}

var modNames = map[string]g.OpMode{"a": g.A, "b": g.B, "ab": g.AB, "ba": g.BA, "f": g.F, "x": g.X, "i": g.I}
var modeNames = map[string]g.AddressMode{"#": g.IMMEDIATE, "$": g.DIRECT, "@": g.B_INDIRECT, "<": g.B_DECREMENT, ">": g.B_INCREMENT,
	"*": g.A_INDIRECT, "{": g.A_DECREMENT, "}": g.A_INCREMENT}

// DefaultModifier94 is the default-modifier table of the ICWS'94 draft.
func DefaultModifier94(op g.OpCode, am, bm g.AddressMode) g.OpMode {
	switch op {
	case g.DAT, g.NOP:
		return g.F
	case g.MOV, g.SEQ, g.SNE, g.CMP:
		if am == g.IMMEDIATE {
			return g.AB
		}
		if bm == g.IMMEDIATE {
			return g.B
		}
		return g.I
	case g.ADD, g.SUB, g.MUL, g.DIV, g.MOD:
		if am == g.IMMEDIATE {
			return g.AB
		}
		if bm == g.IMMEDIATE {
			return g.B
		}
		return g.F
	case g.SLT:
		if am == g.IMMEDIATE {
			return g.AB
		}
		return g.B
	default: // JMP JMZ JMN DJN SPL
		return g.B
	}
}

// Legal88 is the independent table of legal ICWS'88 instructions: it returns
// the modifier the standard implies and whether the instruction is legal
// (SLT with an immediate B is allowed, as the repository's suite documents).
func Legal88(op g.OpCode, am, bm g.AddressMode) (g.OpMode, bool) {
	is88 := func(m g.AddressMode) bool {
		return m == g.IMMEDIATE || m == g.DIRECT || m == g.B_INDIRECT || m == g.B_DECREMENT
	}
	if !is88(am) || !is88(bm) {
		return 0, false
	}
	switch op {
	case g.DAT:
		ok := (am == g.IMMEDIATE || am == g.B_DECREMENT) && (bm == g.IMMEDIATE || bm == g.B_DECREMENT)
		return g.F, ok
	case g.MOV, g.CMP:
		if am == g.IMMEDIATE {
			return g.AB, bm != g.IMMEDIATE
		}
		return g.I, bm != g.IMMEDIATE
	case g.ADD, g.SUB:
		if am == g.IMMEDIATE {
			return g.AB, bm != g.IMMEDIATE
		}
		return g.F, bm != g.IMMEDIATE
	case g.SLT:
		if am == g.IMMEDIATE {
			return g.AB, true
		}
		return g.B, true
	case g.JMP, g.JMZ, g.JMN, g.DJN, g.SPL:
		return g.B, am != g.IMMEDIATE
	}
	return 0, false
}

// Meaning is what a program denotes.
type Meaning struct {
	Code     []g.Instruction
	Start    int
	Name     string
	Author   string
	Strategy []string
}

// Denote computes the meaning of p under cfg. An error means the program is
// not well-formed (the generator should not produce it).
func Denote(p *AProg, cfg g.SimulatorConfig) (*Meaning, error) {
	M := uint64(cfg.CoreSize)
	labels := map[string]int{}
	for i, in := range p.Ins {
		for _, l := range in.Labels {
			labels[l] = i
		}
	}
	equs := map[string][]string{}
	for _, e := range p.Equs {
		equs[e.Name] = e.Body
	}
	consts := map[string]uint64{"CORESIZE": M, "MAXLENGTH": uint64(cfg.Length), "MAXPROCESSES": uint64(cfg.Processes), "MINDISTANCE": uint64(cfg.Distance)}
	var subst func(toks []string, depth int) ([]string, error)
	subst = func(toks []string, depth int) ([]string, error) {
		if depth > 30 {
			return nil, fmt.Errorf("EQU nesting too deep (cycle?)")
		}
		var out []string
		for _, t := range toks {
			if body, ok := equs[t]; ok {
				b, err := subst(body, depth+1)
				if err != nil {
					return nil, err
				}
				out = append(out, b...)
			} else {
				out = append(out, t)
			}
		}
		return out, nil
	}
	eval := func(toks []string, at int) (*big.Int, error) {
		toks, err := subst(toks, 0)
		if err != nil {
			return nil, err
		}
		return EvalTokens(toks, func(n string) (*big.Int, error) {
			if v, ok := consts[n]; ok {
				return new(big.Int).SetUint64(v), nil
			}
			if l, ok := labels[n]; ok {
				return big.NewInt(int64(l - at)), nil
			}
			return nil, fmt.Errorf("undefined name %q", n)
		})
	}
	m := &Meaning{Name: p.Name, Author: p.Author, Strategy: p.Strategy}
	legacy := cfg.Mode == g.ICWS88
	for i, in := range p.Ins {
		op, ok := opNames[in.Op]
		if !ok {
			return nil, fmt.Errorf("unknown opcode %q", in.Op)
		}
		mode := func(o Operand) (g.AddressMode, error) {
			if o.Mode == "" {
				if legacy && op == g.DAT {
					return 0, fmt.Errorf("'88 DAT with an omitted mode is outside the property")
				}
				return g.DIRECT, nil
			}
			mm, ok := modeNames[o.Mode]
			if !ok {
				return 0, fmt.Errorf("unknown mode %q", o.Mode)
			}
			return mm, nil
		}
		if !in.A.Present {
			return nil, fmt.Errorf("instruction without operands")
		}
		am, err := mode(in.A)
		if err != nil {
			return nil, err
		}
		av, err := eval(in.A.Expr, i)
		if err != nil {
			return nil, err
		}
		var bm g.AddressMode
		bv := new(big.Int)
		if in.B.Present {
			bm, err = mode(in.B)
			if err != nil {
				return nil, err
			}
			bv, err = eval(in.B.Expr, i)
			if err != nil {
				return nil, err
			}
		} else {
			bm = g.DIRECT
		}
		var md g.OpMode
		if in.Mod != "" {
			if legacy {
				return nil, fmt.Errorf("'88 has no modifiers")
			}
			md = modNames[in.Mod]
		} else if legacy {
			lm, ok := Legal88(op, am, bm)
			if !in.B.Present && op == g.DAT {
				lm, ok = Legal88(op, g.IMMEDIATE, am)
			}
			if !ok {
				return nil, fmt.Errorf("illegal '88 instruction")
			}
			md = lm
		} else {
			md = DefaultModifier94(op, am, bm)
		}
		if !in.B.Present && op == g.DAT {
			// lone operand of DAT goes to the B field, A becomes #0
			bm, bv = am, av
			am, av = g.IMMEDIATE, new(big.Int)
		}
		if !Fits32(av) || !Fits32(bv) {
			return nil, fmt.Errorf("value outside 32 bits")
		}
		m.Code = append(m.Code, g.Instruction{Op: op, OpMode: md, AMode: am, A: g.Address(ModM(av, M)), BMode: bm, B: g.Address(ModM(bv, M))})
	}
	if p.StartKind != StartNone {
		v, err := eval(p.StartExpr, 0)
		if err != nil {
			return nil, err
		}
		if !v.IsInt64() || v.Int64() < 0 || v.Int64() >= int64(len(m.Code)) {
			return nil, fmt.Errorf("entry point outside the program")
		}
		m.Start = int(v.Int64())
	}
	return m, nil
}

// StrategyLines normalises a Strategy string for comparison.
func StrategyLines(s string) []string {
	var out []string
	for _, l := range strings.Split(s, "\n") {
		l = strings.TrimSpace(l)
		if l != "" {
			out = append(out, l)
		}
	}
	return out
}

package ref

// Mars is the reference scheduler (R-mars): round robin over warriors in load
// order, one task from the front of the warrior's FIFO queue per cycle, new
// tasks to the back subject to the process limit, death when the queue
// empties, and the three ways a battle ends.
type Mars struct {
	M, R, W, P, MaxCycles uint64
	Core                  []Ins
	Ws                    []*RW
	Cycles                uint64
	Living                int

	// trace of the cycle last run
	Tasks []Task
}

// RW is one warrior of the reference machine.
type RW struct {
	Q       []uint64
	Alive   bool
	Spawned bool
}

// Task records one executed task.
type Task struct {
	W      int
	PC     uint64
	Out    StepOut
	Died   bool // the warrior died with this task
	Pushed []uint64
}

func NewMars(M, R, W, P, maxCycles uint64) *Mars {
	return &Mars{M: M, R: R, W: W, P: P, MaxCycles: maxCycles, Core: make([]Ins, M)}
}

// Add registers a warrior that is not yet spawned.
func (m *Mars) Add() int {
	m.Ws = append(m.Ws, &RW{})
	return len(m.Ws) - 1
}

// Spawn loads code at off (any value; reduced mod M) and starts one task.
func (m *Mars) Spawn(w int, code []Ins, start int, off uint64) {
	off %= m.M
	for i, ins := range code {
		m.Core[(off+uint64(i))%m.M] = ins
	}
	rw := m.Ws[w]
	rw.Q = []uint64{(off + uint64(start)) % m.M}
	rw.Alive = true
	rw.Spawned = true
	m.Living++
}

// Active reports whether another cycle may be run.
func (m *Mars) Active() bool {
	if m.Cycles >= m.MaxCycles {
		return false
	}
	if len(m.Ws) == 1 {
		return m.Living == 1
	}
	return m.Living >= 2
}

// Cycle runs one cycle. It returns true when the cycle was completed (every
// living warrior executed) and false when the battle was decided mid-cycle.
func (m *Mars) Cycle() bool {
	m.Tasks = m.Tasks[:0]
	for i, w := range m.Ws {
		if !w.Alive {
			continue
		}
		pc := w.Q[0]
		w.Q = w.Q[1:]
		out := Step(m.Core, m.M, m.R, m.W, pc)
		t := Task{W: i, PC: pc, Out: out}
		for _, p := range out.Push {
			if uint64(len(w.Q)) < m.P {
				w.Q = append(w.Q, p)
				t.Pushed = append(t.Pushed, p)
			}
		}
		if len(w.Q) == 0 {
			w.Alive = false
			m.Living--
			t.Died = true
			m.Tasks = append(m.Tasks, t)
			if len(m.Ws) > 1 && m.Living == 1 {
				return false
			}
			continue
		}
		m.Tasks = append(m.Tasks, t)
	}
	m.Cycles++
	return true
}

// Reset empties the core and returns every warrior to the added state.
func (m *Mars) Reset() {
	m.Core = make([]Ins, m.M)
	m.Cycles = 0
	m.Living = 0
	for _, w := range m.Ws {
		w.Q = nil
		w.Alive = false
		w.Spawned = false
	}
}

package ref

import (
	"fmt"
	"strconv"
	"strings"

	g "github.com/bobertlo/gmars"
)

// R-load: canonical load-file printer, line classifier; R-listing: reader for
// pMARS-style listings.

// Spelling of a field value in a load file.
const (
	SpellUnsigned = iota // 0 .. M-1
	SpellSigned          // values above M/2 written negative
	SpellOver            // value + M
)

func spell(v, M uint64, how int) string {
	switch how {
	case SpellSigned:
		if v > M/2 {
			return "-" + strconv.FormatUint(M-v, 10)
		}
		return strconv.FormatUint(v, 10)
	case SpellOver:
		return strconv.FormatUint(v+M, 10)
	}
	return strconv.FormatUint(v, 10)
}

// PrintLines returns the canonical load-file lines (without line ends): one
// fully explicit instruction per line plus the entry-point directive
// (ORG n first under '94, END n last under '88).
func PrintLines(code []g.Instruction, start int, legacy bool, M uint64, how int) []string {
	var ls []string
	if !legacy {
		ls = append(ls, fmt.Sprintf("ORG %d", start))
	}
	for _, x := range code {
		op := x.Op.String()
		if !legacy {
			op += "." + x.OpMode.String()
		}
		ls = append(ls, fmt.Sprintf("%s %s %s, %s %s", op, x.AMode, spell(uint64(x.A), M, how), x.BMode, spell(uint64(x.B), M, how)))
	}
	if legacy {
		ls = append(ls, fmt.Sprintf("END %d", start))
	}
	return ls
}

// Line classes of a load file.
const (
	LineBlank = iota // empty, blanks only, or comment only
	LineDirective
	LineCandidate // anything else: must become exactly one instruction or make the read fail
)

// ClassifyLine classifies one physical line (without its line end).
func ClassifyLine(l string) (class int, word string) {
	if i := strings.Index(l, ";"); i >= 0 {
		l = l[:i]
	}
	f := strings.Fields(strings.ReplaceAll(l, ",", " "))
	if len(f) == 0 {
		return LineBlank, ""
	}
	w := strings.ToLower(f[0])
	if w == "org" || w == "end" {
		return LineDirective, w
	}
	return LineCandidate, w
}

// CountCandidates counts the instruction-candidate lines before the end
// marker. unspecified is true when the text contains a construct whose effect
// on later lines the property leaves open (a bare ORG under '88).
func CountCandidates(text string, legacy bool) (n int, unspecified bool) {
	lines := strings.Split(text, "\n")
	for _, l := range lines {
		l = strings.TrimSuffix(l, "\r")
		cl, w := ClassifyLine(l)
		switch cl {
		case LineCandidate:
			n++
		case LineDirective:
			args := len(strings.Fields(strings.ReplaceAll(strings.SplitN(l, ";", 2)[0], ",", " "))) - 1
			if w == "end" {
				return n, false
			}
			if legacy && w == "org" && args == 0 {
				return n, true
			}
		}
	}
	return n, false
}

// ReadListing reads a pMARS-style listing: optional START label, ORG START /
// END START lines, signed fields, modifier implied by the '88 table when
// absent. Fields are returned reduced mod M.
func ReadListing(text string, M uint64, legacy bool) (code []g.Instruction, start int, err error) {
	start = -1
	sawDirective := false
	for _, l := range strings.Split(text, "\n") {
		t := strings.TrimSpace(l)
		if t == "" {
			continue
		}
		f := strings.Fields(strings.ReplaceAll(t, ",", " , "))
		if len(f) == 2 && (f[0] == "ORG" || f[0] == "END") {
			if f[1] != "START" {
				return nil, 0, fmt.Errorf("directive without START: %q", l)
			}
			if (f[0] == "END") != legacy {
				return nil, 0, fmt.Errorf("%s START in a listing of the other dialect", f[0])
			}
			sawDirective = true
			continue
		}
		labelled := false
		if f[0] == "START" {
			labelled = true
			f = f[1:]
		}
		// op[.mod] mode value , mode value
		if len(f) != 6 || f[3] != "," {
			return nil, 0, fmt.Errorf("malformed listing line %q", l)
		}
		var ins g.Instruction
		parts := strings.Split(f[0], ".")
		op, ok := opNames[strings.ToLower(parts[0])]
		if !ok || parts[0] != strings.ToUpper(parts[0]) {
			return nil, 0, fmt.Errorf("bad opcode in %q", l)
		}
		ins.Op = op
		hasMod := len(parts) == 2
		if hasMod && legacy {
			return nil, 0, fmt.Errorf("an ICWS'88 listing carries no modifiers: %q", l)
		}
		if !hasMod && !legacy {
			return nil, 0, fmt.Errorf("an ICWS'94 listing line without a modifier: %q", l)
		}
		if hasMod {
			md, ok := modNames[strings.ToLower(parts[1])]
			if !ok {
				return nil, 0, fmt.Errorf("bad modifier in %q", l)
			}
			ins.OpMode = md
		}
		field := func(m, v string) (g.AddressMode, g.Address, error) {
			mm, ok := modeNames[m]
			if !ok {
				return 0, 0, fmt.Errorf("bad mode %q in %q", m, l)
			}
			n, err := strconv.ParseInt(v, 10, 64)
			if err != nil {
				return 0, 0, fmt.Errorf("bad number %q in %q", v, l)
			}
			r := n % int64(M)
			if r < 0 {
				r += int64(M)
			}
			return mm, g.Address(r), nil
		}
		var e error
		if ins.AMode, ins.A, e = field(f[1], f[2]); e != nil {
			return nil, 0, e
		}
		if ins.BMode, ins.B, e = field(f[4], f[5]); e != nil {
			return nil, 0, e
		}
		if !hasMod {
			md, ok := Legal88(ins.Op, ins.AMode, ins.BMode)
			if !ok {
				return nil, 0, fmt.Errorf("listing line without modifier is not a legal '88 instruction: %q", l)
			}
			ins.OpMode = md
		}
		if labelled {
			if start >= 0 {
				return nil, 0, fmt.Errorf("two START labels")
			}
			start = len(code)
		}
		code = append(code, ins)
	}
	if len(code) > 0 && (start < 0 || !sawDirective) {
		return nil, 0, fmt.Errorf("listing without START label or ORG/END START line")
	}
	if start < 0 {
		start = 0
	}
	return code, start, nil
}

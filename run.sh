#!/bin/sh
# Entry point of every registered command: (re)builds the orchestrator from
# the files on disk (a no-op when the build cache is warm) and runs it.
set -e
export GOFLAGS=-mod=mod GOPROXY=off GOSUMDB=off GOTOOLCHAIN=local
case "$2" in
  /*|"") ARG2="$2" ;;
  *) if [ "$1" = replay ]; then ARG2="$(pwd)/$2"; else ARG2="$2"; fi ;;
esac
cd /verif/mc
mkdir -p /verif/bin
go build -o /verif/bin/vmc ./cmd/vmc
case "$1" in
  setup) go build -o /verif/bin/vh-warm ./cmd/vh && rm -f /verif/bin/vh-warm; exit 0 ;;
  replay) exec /verif/bin/vmc replay "$ARG2" ;;
  *) exec /verif/bin/vmc check "$1" "${2:-quick}" ;;
esac
